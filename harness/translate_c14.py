"""
C14 translator: /repo/src/peptacular/data/chem.txt + constants.py  ->  lean/PeptVerif/Generated/IsotopesC14.lean

Mirrors element_setup.get_element_info / map_atomic_number_to_comp / map_atomic_number_to_comp_neutron_offset /
get_isotopic_atomic_masses with *exact decimal texts* (no float): per key of
constants.ATOMIC_SYMBOL_TO_ISOTOPE_MASSES_AND_ABUNDANCES (element symbols, isotope keys such as 13C / 2D, aliases D T 2H 3H)
  (code points of the key, monoisotopic-mass numerator, [(mass number, mass numerator, abundance numerator)])
with fixed scales massScale = 10^12, abScale = 10^9, isotopes in the order of the Python list (most abundant first,
zero-abundance isotopes dropped). Particle masses are read from constants.py (numerator over partScale = 10^15).
The file is rewritten only when its content changes.
"""
import os
import re
from fractions import Fraction

MASS_DEC = 12
AB_DEC = 9
PART_DEC = 15


def _dec(text, digits, what):
    """exact decimal text -> integer numerator over 10^digits"""
    t = text.strip()
    if not re.fullmatch(r'\d+(\.\d*)?', t):
        raise ValueError(f'{what}: not a plain decimal: {text!r}')
    f = Fraction(t) * 10 ** digits
    if f.denominator != 1:
        raise ValueError(f'{what}: more than {digits} decimals: {text!r}')
    return int(f)


def read_infos(path):
    """list of dicts in file order (same block logic as element_setup.get_element_info)"""
    infos = []
    cur = {}

    def flush():
        if cur:
            for need in ('z', 'sym', 'a', 'mass', 'ab'):
                if need not in cur:
                    raise ValueError(f'block without {need}: {cur}')
            infos.append(dict(cur))
        cur.clear()

    with open(path) as fh:
        for line in fh:
            line = line.strip()
            if line == '':
                flush()
                continue
            if '=' not in line:
                raise ValueError(f'line without "=": {line!r}')
            k, v = line.split('=')[0].rstrip(), line.split('=')[1].lstrip()
            if k == 'Atomic Number':
                cur['z'] = int(v)
            elif k == 'Atomic Symbol':
                cur['sym'] = v
            elif k == 'Mass Number':
                cur['a'] = int(v)
            elif k == 'Relative Atomic Mass':
                cur['mass'] = _dec(v.split('(')[0], MASS_DEC, 'mass')
            elif k == 'Isotopic Composition':
                cur['ab'] = 0 if v == '' else _dec(v.split('(')[0], AB_DEC, 'abundance')
            elif k in ('Standard Atomic Weight', 'Notes'):
                pass
            else:
                raise ValueError(f'unknown key {k}')
    if 'z' in cur:
        flush()
    return infos


def build_table(infos):
    """ordered dict key -> (mono, [(A, mass, ab)]) exactly as the two map_atomic_number_to_comp* functions build theirs"""
    by_z = {}
    for i in infos:
        by_z.setdefault(i['z'], []).append(i)
    d = {}
    for _, lst in by_z.items():
        lst = sorted(lst, key=lambda x: x['ab'], reverse=True)  # stable, like list.sort(reverse=True)
        mono = lst[0]
        d[mono['sym']] = (mono['mass'], [(i['a'], i['mass'], i['ab']) for i in lst if i['ab'] != 0])
        for i in lst:
            d[f"{i['a']}{i['sym']}"] = (i['mass'], [(i['a'], i['mass'], 10 ** AB_DEC)])
        if '3T' in d:
            d['T'] = d['3T']
            d['D'] = d['2D']
            d['3H'] = d['3T']
            d['2H'] = d['2D']
    return d


def read_particles(path):
    src = open(path).read()
    out = {}
    for name in ('PROTON_MASS', 'ELECTRON_MASS', 'NEUTRON_MASS'):
        m = re.search(r'^' + name + r'\s*=\s*([0-9.]+)\s*$', src, re.M)
        if not m:
            raise ValueError(f'{name} not found in constants.py')
        out[name] = _dec(m.group(1), PART_DEC, name)
    return out


def runtime_tables():
    """fallback: the tables the library under test builds at import time, by value (floats -> their shortest decimal text)"""
    import importlib
    from decimal import Decimal
    c = importlib.import_module('peptacular.constants')

    def num(x, digits, what):
        f = Fraction(Decimal(repr(float(x)))) * 10 ** digits
        return int(round(f))

    M = c.ATOMIC_SYMBOL_TO_ISOTOPE_MASSES_AND_ABUNDANCES
    N = c.ATOMIC_SYMBOL_TO_ISOTOPE_NEUTRON_OFFSETS_AND_ABUNDANCES
    mono = c.ISOTOPIC_ATOMIC_MASSES
    table = {}
    for k, lst in M.items():
        offs = list(N.get(k, []))
        isos = []
        for i, (m, ab) in enumerate(lst):
            off = int(offs[i][0]) if i < len(offs) else 0
            isos.append((1000 + off, num(m, MASS_DEC, 'mass'), num(ab, AB_DEC, 'abundance')))
        table[str(k)] = (num(mono.get(k, lst[0][0] if lst else 0.0), MASS_DEC, 'mono'), isos)
    parts = {'PROTON_MASS': num(c.PROTON_MASS, PART_DEC, 'p'), 'ELECTRON_MASS': num(c.ELECTRON_MASS, PART_DEC, 'e'),
             'NEUTRON_MASS': num(c.NEUTRON_MASS, PART_DEC, 'n')}
    return table, parts


LAST_MODE = {'mode': 'source', 'why': ''}


def load_tables(repo):
    """(table, parts, mode, why): mode 'source' = exact decimal texts read from data/chem.txt + constants.py by this translator's
    own reading of element_setup; 'by_value' = the source could not be read in the expected shape, the runtime tables of the
    library under test are emitted instead (the generated module is then not an independent reading of the data)"""
    base = os.path.join(repo, 'src', 'peptacular')
    try:
        table = build_table(read_infos(os.path.join(base, 'data', 'chem.txt')))
        parts = read_particles(os.path.join(base, 'constants.py'))
        if not table:
            raise ValueError('no element block found in chem.txt')
        for k, (mono, isos) in table.items():
            if not isinstance(mono, int) or any(not isinstance(x, int) for t in isos for x in t):
                raise ValueError(f'incomplete block for {k}')
        return table, parts, 'source', ''
    except Exception as e:  # noqa  - any shape problem: never crash, fall back
        why = f'{type(e).__name__}: {e}'
        table, parts = runtime_tables()
        return table, parts, 'by_value', why


def render(repo):
    table, parts, mode, why = load_tables(repo)
    LAST_MODE.update(mode=mode, why=why)
    L = []
    L.append('/-! GENERATED by harness/translate_c14.py from src/peptacular/data/chem.txt and constants.py - do not edit.')
    if mode == 'source':
        L.append('Exact decimal texts of the source as numerators over fixed powers of ten. -/')
    else:
        L.append('BY VALUE: the source could not be read in the expected shape; runtime tables of the library under test. -/')
    L.append('namespace PeptVerif.Gen.C14')
    L.append('')
    L.append(f'def massScale : Nat := {10 ** MASS_DEC}')
    L.append(f'def abScale : Nat := {10 ** AB_DEC}')
    L.append(f'def partScale : Nat := {10 ** PART_DEC}')
    L.append(f"def protonNum : Nat := {parts['PROTON_MASS']}")
    L.append(f"def electronNum : Nat := {parts['ELECTRON_MASS']}")
    L.append(f"def neutronNum : Nat := {parts['NEUTRON_MASS']}")
    L.append('')
    L.append('/-- key code points, monoisotopic mass numerator, isotopes (mass number, mass numerator, abundance numerator) -/')
    L.append('abbrev Entry := List Nat × Nat × List (Nat × Nat × Nat)')
    L.append('')
    items = list(table.items())
    chunks = [items[i:i + 60] for i in range(0, len(items), 60)] or [[]]
    for ci, ch in enumerate(chunks):
        L.append(f'def chunk{ci} : List Entry := [')
        rows = []
        for key, (mono, isos) in ch:
            cps = ', '.join(str(ord(c)) for c in key)
            iso = ', '.join(f'({a}, {m}, {ab})' for a, m, ab in isos)
            safe = key.replace('-/', '- /').replace('/-', '/ -')
            rows.append(f'  /- {safe} -/ ([{cps}], {mono}, [{iso}])')
        L.append(',\n'.join(rows))
        L.append(']')
        L.append('')
    L.append('def table : List Entry := ' + ' ++ '.join(f'chunk{i}' for i in range(len(chunks))))
    L.append('')
    L.append('end PeptVerif.Gen.C14')
    return '\n'.join(L) + '\n', table, parts


def translate(repo, lean_dir):
    """returns (changed: bool, path)"""
    text, _, _ = render(repo)
    path = os.path.join(lean_dir, 'PeptVerif', 'Generated', 'IsotopesC14.lean')
    os.makedirs(os.path.dirname(path), exist_ok=True)
    if os.path.exists(path) and open(path).read() == text:
        return False, path
    tmp = path + '.tmp%d' % os.getpid()
    with open(tmp, 'w') as f:
        f.write(text)
    os.replace(tmp, path)
    return True, path


if __name__ == '__main__':
    import sys
    here = os.path.dirname(os.path.dirname(os.path.abspath(__file__)))
    print(translate(os.environ.get('VERIF_REPO', '/repo'), os.path.join(here, 'lean')))
