"""
Translator: /repo's CURRENT src/peptacular/sequence/sequence_funcs.py (read with `ast`, never imported) ->
lean/PeptVerif/Generated/CoverageCorePy.lean (namespace GenCov) for the pure pieces of `coverage` / `percent_coverage`, and
lean/PeptVerif/Props/C16Gen.lean (equalities with the hand model of Model/Search.lean and the transferred coverage theorems),
assembled from harness/c16gen_template.lean. Same rules as translate_scorecore.py: never raises; a piece outside the subset is
`untranslated`, its theorem block is omitted and the hand model stays tied by correspondence.

Pieces:
  mark     coverage: the `if accumulate: A[i:i+L] = [x + 1 for x in A[i:i+L]] else: A[i:i+L] = [1] * L` statement of the innermost loop
  percent  percent_coverage: the literal `accumulate=` flag of its call of `coverage`, the zero guard and `sum(cov) / len(cov)`

Subset: names, integer constants, `+`, `sequence_length(<loop variable>)`, slice assignment `A[a:b] = rhs` with rhs a
comprehension `[x <+|-> c for x in A[a:b]]` or `[c] * n`, `len`, `sum`, `==`, `/`, `if c: return e`, `return e`.
"""
import ast
import os
import re
import subprocess

from . import core

PIECES = ['mark', 'percent']


class Untranslatable(Exception):
    pass


def func(tree, name):
    for n in tree.body:
        if isinstance(n, ast.FunctionDef) and n.name == name:
            return n
    raise Untranslatable(f'function {name} not found')


class NatEx:
    def __init__(self, env, lenvar=None):
        self.env = env            # python name -> lean text (Nat or List Nat)
        self.lenvar = lenvar      # loop variable whose sequence_length(...) is `L`

    def nat(self, e):
        if isinstance(e, ast.Constant) and isinstance(e.value, int) and not isinstance(e.value, bool) and e.value >= 0:
            return str(e.value)
        if isinstance(e, ast.Name) and e.id in self.env and self.env[e.id][1] == 'nat':
            return self.env[e.id][0]
        if isinstance(e, ast.BinOp) and isinstance(e.op, ast.Add):
            return f'({self.nat(e.left)} + {self.nat(e.right)})'
        if (isinstance(e, ast.Call) and isinstance(e.func, ast.Name) and e.func.id == 'sequence_length' and len(e.args) == 1 and
                not e.keywords and isinstance(e.args[0], ast.Name) and e.args[0].id == self.lenvar):
            return 'L'
        if isinstance(e, ast.Call) and isinstance(e.func, ast.Name) and e.func.id == 'len' and len(e.args) == 1:
            return f'{self.lst(e.args[0])}.length'
        if isinstance(e, ast.Call) and isinstance(e.func, ast.Name) and e.func.id == 'sum' and len(e.args) == 1:
            return f'{self.lst(e.args[0])}.sum'
        raise Untranslatable('integer expression ' + type(e).__name__)

    def lst(self, e):
        if isinstance(e, ast.Name) and e.id in self.env and self.env[e.id][1] == 'list':
            return self.env[e.id][0]
        if isinstance(e, ast.Subscript) and isinstance(e.slice, ast.Slice):
            sl = e.slice
            if sl.step is not None or sl.lower is None or sl.upper is None:
                raise Untranslatable('slice form')
            a, b = self.nat(sl.lower), self.nat(sl.upper)
            return f'(({self.lst(e.value)}.drop {a}).take ({b} - {a}))'
        if isinstance(e, ast.ListComp):
            if len(e.generators) != 1 or e.generators[0].ifs or not isinstance(e.generators[0].target, ast.Name):
                raise Untranslatable('comprehension form')
            g = e.generators[0]
            v = g.target.id
            sub = NatEx(dict(self.env, **{v: (v, 'nat')}), self.lenvar)
            return f'({self.lst(g.iter)}.map fun {v} => {sub.nat(e.elt)})'
        if isinstance(e, ast.BinOp) and isinstance(e.op, ast.Mult) and isinstance(e.left, ast.List) and len(e.left.elts) == 1:
            return f'(List.replicate {self.nat(e.right)} {self.nat(e.left.elts[0])})'
        raise Untranslatable('list expression ' + type(e).__name__)

    def slice_assign(self, st):
        if not (isinstance(st, ast.Assign) and len(st.targets) == 1 and isinstance(st.targets[0], ast.Subscript) and
                isinstance(st.targets[0].slice, ast.Slice) and isinstance(st.targets[0].value, ast.Name)):
            raise Untranslatable('expected a slice assignment')
        t = st.targets[0]
        A = self.lst(t.value)
        if t.slice.step is not None or t.slice.lower is None or t.slice.upper is None:
            raise Untranslatable('slice form')
        a, b = self.nat(t.slice.lower), self.nat(t.slice.upper)
        return f'{A}.take {a} ++ {self.lst(st.value)} ++ {A}.drop {b}'


def piece_mark(tree):
    fn = func(tree, 'coverage')
    names = [a.arg for a in fn.args.args]
    if len(names) < 4:
        raise Untranslatable('argument form')
    seq, subs, acc, ign = names[:4]
    outer = [s for s in fn.body if isinstance(s, ast.For) and isinstance(s.iter, ast.Name) and s.iter.id == subs and isinstance(s.target, ast.Name)]
    if len(outer) != 1:
        raise Untranslatable('the loop over the subsequences')
    sub = outer[0].target.id
    inner = [s for s in outer[0].body if isinstance(s, ast.For) and isinstance(s.target, ast.Name)]
    if len(inner) != 1 or len(inner[0].body) != 1 or not isinstance(inner[0].body[0], ast.If):
        raise Untranslatable('the loop over the offsets')
    idx = inner[0].target.id
    st = inner[0].body[0]
    if not (isinstance(st.test, ast.Name) and st.test.id == acc and len(st.body) == 1 and len(st.orelse) == 1):
        raise Untranslatable('expected `if accumulate: … else: …`')
    inits = [s for s in fn.body if isinstance(s, ast.Assign) and len(s.targets) == 1 and isinstance(s.targets[0], ast.Name)
             and isinstance(s.value, ast.BinOp) and isinstance(s.value.op, ast.Mult)]
    if len(inits) != 1:
        raise Untranslatable('the initial array')
    arr = inits[0].targets[0].id
    ex = NatEx({arr: ('cov', 'list'), idx: ('i', 'nat')}, sub)
    a = ex.slice_assign(st.body[0])
    b = ex.slice_assign(st.orelse[0])
    iv = inits[0].value
    if not (isinstance(iv.left, ast.List) and len(iv.left.elts) == 1 and isinstance(iv.left.elts[0], ast.Constant)
            and isinstance(iv.right, ast.Call) and isinstance(iv.right.func, ast.Name) and iv.right.func.id == 'sequence_length'):
        raise Untranslatable('the initial array')
    return (f'/-- the statement of the innermost loop of `coverage` (`cov` = `{arr}`, `i` = `{idx}`, `L` = `sequence_length({sub})`):\n'
            f'`{ast.unparse(st.body[0])}` / `{ast.unparse(st.orelse[0])}` -/\n'
            f'def coverage_mark (accumulate : Bool) (L : Nat) (cov : List Nat) (i : Nat) : List Nat :=\n'
            f'  if accumulate then {a}\n  else {b}\n\n'
            f'/-- `{ast.unparse(inits[0])}` for a sequence of length `n` -/\n'
            f'def coverage_init (n : Nat) : List Nat := List.replicate n {ex.nat(iv.left.elts[0])}\n')


def piece_percent(tree):
    fn = func(tree, 'percent_coverage')
    body = [s for s in fn.body if not (isinstance(s, ast.Expr) and isinstance(s.value, ast.Constant))]
    if len(body) != 3:
        raise Untranslatable('expected three statements')
    a0, guard, ret = body
    if not (isinstance(a0, ast.Assign) and isinstance(a0.targets[0], ast.Name) and isinstance(a0.value, ast.Call) and
            isinstance(a0.value.func, ast.Name) and a0.value.func.id == 'coverage'):
        raise Untranslatable('expected cov = coverage(...)')
    kw = {k.arg: k.value for k in a0.value.keywords}
    flag = kw.get('accumulate')
    if flag is None and len(a0.value.args) >= 3:
        flag = a0.value.args[2]
    if flag is None:
        flag = ast.Constant(value=False)      # the default of coverage()
    if not (isinstance(flag, ast.Constant) and isinstance(flag.value, bool)):
        raise Untranslatable('accumulate flag is not a literal')
    arr = a0.targets[0].id
    ex = NatEx({arr: ('cov', 'list')})
    if not (isinstance(guard, ast.If) and not guard.orelse and len(guard.body) == 1 and isinstance(guard.body[0], ast.Return) and
            isinstance(guard.test, ast.Compare) and len(guard.test.ops) == 1 and isinstance(guard.test.ops[0], ast.Eq)):
        raise Untranslatable('zero guard')
    g = f'{ex.nat(guard.test.left)} = {ex.nat(guard.test.comparators[0])}'
    gv = ex.nat(guard.body[0].value)
    if not (isinstance(ret, ast.Return) and isinstance(ret.value, ast.BinOp) and isinstance(ret.value.op, ast.Div)):
        raise Untranslatable('final quotient')
    num, den = ex.nat(ret.value.left), ex.nat(ret.value.right)
    return (f'/-- the literal `accumulate=` argument of the call of `coverage` in `percent_coverage` -/\n'
            f'def percent_accumulate_flag : Bool := {"true" if flag.value else "false"}\n\n'
            f'/-- `{ast.unparse(guard.test)}` ⇒ `{ast.unparse(guard.body[0].value)}`, else `{ast.unparse(ret.value)}` (true division of two ints) -/\n'
            f'def percent_of (cov : List Nat) : Rat :=\n  if {g} then (({gv} : Nat) : Rat) else (({num} : Nat) : Rat) / (({den} : Nat) : Rat)\n')


PIECE_FN = {'mark': piece_mark, 'percent': piece_percent}

HEADER = '''import PeptVerif.Model.Search
/-! GENERATED by harness/translate_covcore.py from src/peptacular/sequence/sequence_funcs.py — do not edit.
Each definition is the literal reading, in the tiny subset the translator accepts, of a piece of `coverage` /
`percent_coverage`; `Props/C16Gen.lean` proves it equal to the hand-written model. -/
set_option linter.unusedVariables false
namespace GenCov

'''


def emit(tree, skip):
    unt = dict(skip)
    out = {}
    for p in PIECES:
        if p in unt:
            continue
        try:
            out[p] = PIECE_FN[p](tree)
        except Untranslatable as e:
            unt[p] = str(e)
        except Exception as e:  # noqa - never crash
            unt[p] = f'{type(e).__name__}: {e}'
    done = [p for p in PIECES if p in out]
    return HEADER + '\n'.join(f'-- piece: {p}\n{out[p]}' for p in done) + '\nend GenCov\n', unt, done


def assemble_props(done, unt):
    tpl = open(os.path.join(os.path.dirname(__file__), 'c16gen_template.lean')).read()
    parts = [tpl[:tpl.index('-- BEGIN ')]]
    for p in PIECES:
        m = re.search(r'-- BEGIN %s\n(.*?)-- END %s\n' % (p, p), tpl, re.S)
        if p in done and m:
            parts.append(m.group(1))
        else:
            parts.append(f'-- piece {p}: not translated ({unt.get(p, "no template")}); the hand model is tied by correspondence only\n\n')
    parts.append('end GenCov\n')
    return ''.join(parts)


def write_if_changed(path, body):
    old = open(path).read() if os.path.exists(path) else None
    if old != body:
        os.makedirs(os.path.dirname(path), exist_ok=True)
        with open(path, 'w') as f:
            f.write(body)
        return True
    return False


def translate(chk=None, repo=None, check_compiles=True):
    repo = repo or core.REPO
    gpath = os.path.join(core.LEAN, 'PeptVerif', 'Generated', 'CoverageCorePy.lean')
    ppath = os.path.join(core.LEAN, 'PeptVerif', 'Props', 'C16Gen.lean')
    skip = {}
    try:
        tree = ast.parse(open(os.path.join(repo, 'src', 'peptacular', 'sequence', 'sequence_funcs.py')).read())
    except Exception as e:  # noqa
        tree = ast.parse('')
        skip = {p: f'sequence_funcs.py unreadable: {type(e).__name__}' for p in PIECES}
    text, unt, done = emit(tree, skip)
    old = open(gpath).read() if os.path.exists(gpath) else None
    if check_compiles and text != old:
        subprocess.run(['lake', 'build', 'PeptVerif.Model.Search'], cwd=core.LEAN, capture_output=True, text=True)
        for _ in range(len(PIECES)):
            tmp = os.path.join(core.LEAN, 'PeptVerif', 'Generated', 'CoverageCorePyCandidate.lean')
            with open(tmp, 'w') as f:
                f.write(text)
            try:
                p = subprocess.run(['lake', 'env', 'lean', os.path.relpath(tmp, core.LEAN)], cwd=core.LEAN, capture_output=True,
                                   text=True, timeout=300)
                outp = p.stdout + p.stderr
            except Exception as e:  # noqa
                outp = f'CoverageCorePyCandidate.lean:1:0: error {e}'
                p = None
            finally:
                if os.path.exists(tmp):
                    os.remove(tmp)
            errs = [int(m.group(1)) for m in re.finditer(r'CoverageCorePyCandidate\.lean:(\d+):\d+: error', outp)]
            if p is not None and p.returncode == 0 and not errs:
                break
            lines = text.split('\n')
            bad = set()
            for ln in errs or [len(lines)]:
                for i in range(min(ln, len(lines)) - 1, -1, -1):
                    m = re.match(r'-- piece: (\w+)', lines[i])
                    if m:
                        bad.add(m.group(1))
                        break
            for b in (bad or set(done)):
                skip[b] = 'generated definition does not elaborate'
            text, unt, done = emit(tree, skip)
    changed = []
    if write_if_changed(gpath, text):
        changed.append('Generated/CoverageCorePy.lean')
    if write_if_changed(ppath, assemble_props(done, unt)):
        changed.append('Props/C16Gen.lean')
    if chk is not None:
        chk.generated_changed += changed
        chk.notes.append('coverage / percent_coverage pieces translated mechanically (GenCov): %s' % (', '.join(done) or 'none'))
        if unt:
            chk.notes.append('pieces modelled by hand only on this run: ' + ', '.join(f'{n} ({r})' for n, r in unt.items()))
        for n in unt:
            chk.generated_changed.append(f'untranslated:{n}')
    return done, unt


if __name__ == '__main__':
    d, u = translate()
    print('translated:', d)
    print('untranslated:', u)
