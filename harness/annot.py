"""
Wire encoding of ProFormaAnnotation objects (mirror of lean/PeptVerif/Model/Annotation.lean, namespace Wire)
and a structured generator of annotations built from the repo's own types.
"""
import string

SAFE = set(string.ascii_letters + string.digits + '_.+-')


def esc(s):
    out = []
    for ch in s:
        if ch in SAFE:
            out.append(ch)
        elif ord(ch) < 128:
            out.append('%%%02X' % ord(ch))
        else:
            out.append('%%u%06X' % ord(ch))
    return ''.join(out)


def unesc(s):
    out = []
    i = 0
    while i < len(s):
        if s[i] == '%':
            if s[i + 1] == 'u':
                out.append(chr(int(s[i + 2:i + 8], 16)))
                i += 8
            else:
                out.append(chr(int(s[i + 1:i + 3], 16)))
                i += 3
        else:
            out.append(s[i])
            i += 1
    return ''.join(out)


def show_val(v):
    if isinstance(v, bool):
        return 'i' + str(int(v))
    if isinstance(v, int):
        return 'i' + str(v)
    if isinstance(v, float):
        return 'f' + esc(repr(v))
    return 's' + esc(str(v))


def show_mod(m):
    return show_val(m.val) + '^' + str(m.mult)


def show_mods(l, sep=';'):
    return sep.join(show_mod(m) for m in l)


def show_opt_mods(l, sep=';'):
    return 'N' if l is None else 'L' + show_mods(l, sep)


def show_internal(d, sort=True):
    if d is None:
        return 'N'
    items = sorted(d.items()) if sort else list(d.items())
    return 'D' + ';'.join(f'{k}={show_mods(v, "&")}' for k, v in items)


def show_interval(iv):
    return f'{iv.start},{iv.end},{int(bool(iv.ambiguous))},{show_opt_mods(iv.mods, "&")}'


def show_intervals(l):
    return 'N' if l is None else 'V' + ';'.join(show_interval(i) for i in l)


def dump(a, sort_internal=True):
    """canonical field dump of a ProFormaAnnotation"""
    return '|'.join([
        esc(a._sequence), show_opt_mods(a._isotope_mods), show_opt_mods(a._static_mods), show_opt_mods(a._labile_mods),
        show_opt_mods(a._unknown_mods), show_opt_mods(a._nterm_mods), show_opt_mods(a._cterm_mods),
        show_internal(a._internal_mods, sort_internal), show_intervals(a._intervals),
        'None' if a._charge is None else str(a._charge), show_opt_mods(a._charge_adducts)])


def dump_multi(m):
    parts = []
    for i, a in enumerate(m.annotations):
        parts.append(dump(a))
        if i < len(m.connections):
            parts.append('1' if m.connections[i] else '0')
    return '~'.join(parts)


def dump_any(x):
    from peptacular.proforma.proforma_parser import ProFormaAnnotation, MultiProFormaAnnotation
    if isinstance(x, ProFormaAnnotation):
        return 'A' + dump(x)
    if isinstance(x, MultiProFormaAnnotation):
        return 'M' + dump_multi(x)
    return 'X' + esc(repr(x))


def canon_dump(s):
    """sort the internal-mod entries of a dump produced by the Lean side (dict order is not observable)"""
    f = s.split('|')
    if len(f) == 11 and f[7].startswith('D') and len(f[7]) > 1:
        ents = f[7][1:].split(';')
        ents.sort(key=lambda e: int(e.split('=')[0]))
        f[7] = 'D' + ';'.join(ents)
    return '|'.join(f)


def parse_val(s):
    if s[0] == 'i':
        return int(s[1:])
    if s[0] == 'f':
        return float(unesc(s[1:]))
    return unesc(s[1:])


def parse_mod(s):
    from peptacular.proforma.proforma_dataclasses import Mod
    v, m = s.rsplit('^', 1)
    md = Mod.__new__(Mod)
    md.val = parse_val(v)
    md.mult = int(m)
    return md


def parse_mods(s, sep=';'):
    return [parse_mod(x) for x in s.split(sep)] if s else []


def parse_opt_mods(s, sep=';'):
    return None if s == 'N' else parse_mods(s[1:], sep)


def undump(s):
    from peptacular.proforma.proforma_parser import ProFormaAnnotation
    from peptacular.proforma.proforma_dataclasses import Interval
    f = s.split('|')
    internal = None
    if f[7] != 'N':
        internal = {}
        if len(f[7]) > 1:
            for e in f[7][1:].split(';'):
                k, v = e.split('=')
                internal[int(k)] = parse_mods(v, '&')
    intervals = None
    if f[8] != 'N':
        intervals = []
        if len(f[8]) > 1:
            for e in f[8][1:].split(';'):
                a, b, c, m = e.split(',')
                intervals.append(Interval(int(a), int(b), c == '1', parse_opt_mods(m, '&')))
    return ProFormaAnnotation(_sequence=unesc(f[0]), _isotope_mods=parse_opt_mods(f[1]), _static_mods=parse_opt_mods(f[2]),
                              _labile_mods=parse_opt_mods(f[3]), _unknown_mods=parse_opt_mods(f[4]),
                              _nterm_mods=parse_opt_mods(f[5]), _cterm_mods=parse_opt_mods(f[6]), _internal_mods=internal,
                              _intervals=intervals, _charge=None if f[9] == 'None' else int(f[9]),
                              _charge_adducts=parse_opt_mods(f[10]))


# ----------------------------------------------------------------------------- generator

RESIDUES20 = 'ACDEFGHIKLMNPQRSTVWY'
RESIDUES26 = 'ABCDEFGHIJKLMNOPQRSTUVWXYZ'

NAMED = ['Oxidation', 'Phospho', 'Acetyl', 'Carbamidomethyl', 'Methyl', 'Deamidated', 'U:Oxidation', 'UNIMOD:21',
         'M:L-methionine sulfoxide', 'MOD:00046', 'Unimod:1', 'u:Phospho']
FORMULAS = ['Formula:C2H3NO', 'Formula:[13C2]H4', 'Formula:C-1H2', 'Formula:H2O', 'Formula:[13C2]C-2H3N']
GLYCANS = ['Glycan:Hex', 'Glycan:HexNAc2Hex3', 'Glycan:Hex2Fuc']
OTHER = ['Obs:+17.05', 'INFO:note', 'Oxidation|INFO:ok', 'Phospho#g1', '#g1', 'Oxidation#s1(0.75)', '+15.995|Oxidation']
NUMS = [1, -1, 15.995, -18.0106, 100, 0.5, 42.0106, 79.97, 1.5, -17.03]
STATIC = ['[Carbamidomethyl]@C', '[+57.02]@C', '[Oxidation]@M', '[Acetyl]@N-Term', '[Methyl]@C-Term', '[Phospho]@S,T',
          '[+1.5]@K', '[Formula:C2H3N]@A,N-Term']
ISOTOPES = ['13C', '15N', '18O', 'D', 'T', '17O', '34S', '2H']
ADDUCTS = ['+H+', '+Na+', '+2Na+', '+K+', '-H+', '+Ca+2', '+Cl-', '+e-', '+Li+', '+Mg+2']


def _mod(rng, pool, mult_p=0.2, max_mult=3):
    from peptacular.proforma.proforma_dataclasses import Mod
    v = rng.choice(pool)
    mult = rng.randint(2, max_mult) if rng.random() < mult_p else 1
    return Mod(v, mult)


def gen_annotation(rng, min_len=1, max_len=12, residues=RESIDUES20, p=0.35, kinds=None, value_pool=None,
                   intervals=True, charge=True, max_mods=2, mult_p=0.2):
    """random ProFormaAnnotation with every modification kind; `kinds` restricts the kinds used"""
    from peptacular.proforma.proforma_parser import ProFormaAnnotation
    from peptacular.proforma.proforma_dataclasses import Interval
    allk = {'labile', 'static', 'isotope', 'unknown', 'nterm', 'cterm', 'internal', 'intervals', 'charge', 'adducts'}
    kinds = allk if kinds is None else set(kinds)
    if not intervals:
        kinds.discard('intervals')
    if not charge:
        kinds -= {'charge', 'adducts'}
    pool = value_pool or (NAMED + FORMULAS + GLYCANS + OTHER + NUMS + NUMS)
    n = rng.randint(min_len, max_len)
    seq = ''.join(rng.choice(residues) for _ in range(n))

    def mods():
        return [_mod(rng, pool, mult_p) for _ in range(rng.randint(1, max_mods))]

    def has(k):
        return k in kinds and rng.random() < p

    a = ProFormaAnnotation(_sequence=seq)
    if has('labile'):
        a._labile_mods = mods()
    if has('static'):
        from peptacular.proforma.proforma_dataclasses import Mod
        a._static_mods = [Mod(rng.choice(STATIC), 1) for _ in range(rng.randint(1, 2))]
    if has('isotope'):
        from peptacular.proforma.proforma_dataclasses import Mod
        a._isotope_mods = [Mod(x, 1) for x in rng.sample(ISOTOPES, rng.randint(1, 2))]
    if has('unknown'):
        a._unknown_mods = mods()
    if has('nterm'):
        a._nterm_mods = mods()
    if has('cterm'):
        a._cterm_mods = mods()
    if 'internal' in kinds and n > 0:
        d = {}
        for i in range(n):
            if rng.random() < p * 0.6:
                d[i] = mods()
        if d:
            if rng.random() < 0.4:
                # dict insertion order is not position order after reverse()/add_internal_mod(); exercise that too
                ks = list(d)
                rng.shuffle(ks)
                d = {k: d[k] for k in ks}
            a._internal_mods = d
    if has('intervals') and n >= 2:
        ivs = []
        pos = 0
        while pos < n - 1 and len(ivs) < 3:
            s = rng.randint(pos, n - 2)
            e = rng.randint(s + 1, n)
            ivs.append(Interval(s, e, rng.random() < 0.3, mods() if rng.random() < 0.7 else None))
            pos = e if rng.random() < 0.5 else e + 1
            if rng.random() < 0.4:
                break
        if ivs:
            a._intervals = ivs
    if has('charge'):
        a._charge = rng.choice([1, 2, 3, -1, -2, 4])
        if has('adducts'):
            from peptacular.proforma.proforma_dataclasses import Mod
            a._charge_adducts = [Mod(','.join(rng.sample(ADDUCTS, rng.randint(1, 2))), 1)]
    return a
