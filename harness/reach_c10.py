"""Reach measurement for the C10 / C15 checks: which lines of the *modelled* Python functions were executed while the
correspondence and the oracles ran (sys.monitoring, Python 3.12). The uncovered lines are listed in the evidence."""
import sys

TOOL = 4  # sys.monitoring tool id (0..5); 4 is not used by debuggers/coverage/profilers


class Reach:
    def __init__(self, funcs):
        self.codes = {}
        for f in funcs:
            f = getattr(f, '__wrapped__', f)
            code = getattr(f, '__code__', None)
            if code is not None:
                self.codes[code] = f'{f.__module__.split(".")[-1]}.{f.__qualname__}'
        self.seen = set()
        self.active = False

    def start(self):
        mon = getattr(sys, 'monitoring', None)
        if mon is None:
            return
        try:
            mon.use_tool_id(TOOL, 'verif-reach')
        except ValueError:
            return
        self.active = True

        def on_line(code, line):
            self.seen.add((code, line))
            return mon.DISABLE
        mon.register_callback(TOOL, mon.events.LINE, on_line)
        for code in self.codes:
            mon.set_local_events(TOOL, code, mon.events.LINE)

    def stop(self):
        if not self.active:
            return None
        mon = sys.monitoring
        for code in self.codes:
            mon.set_local_events(TOOL, code, 0)
        mon.register_callback(TOOL, mon.events.LINE, None)
        mon.free_tool_id(TOOL)
        self.active = False
        report = {}
        total = hit = 0
        for code, name in self.codes.items():
            lines = {ln for _, _, ln in code.co_lines() if ln is not None and ln != code.co_firstlineno}
            # nested lambdas / comprehensions are separate code objects: not counted
            got = {ln for (c, ln) in self.seen if c is code}
            missing = sorted(lines - got)
            total += len(lines)
            hit += len(lines & got)
            if missing:
                report[name] = missing
        return {'lines': total, 'executed': hit, 'uncovered': report}
