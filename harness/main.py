import argparse
import importlib
import json
import os
import subprocess
import sys
import traceback

from . import core


def main():
    ap = argparse.ArgumentParser()
    ap.add_argument('pid')
    ap.add_argument('--tier', default=os.environ.get('VERIF_TIER', 'quick'), choices=['quick', 'thorough'])
    ap.add_argument('--replay', default=None)
    a = ap.parse_args()
    seed = int(os.environ.get('VERIF_SEED', '0') or 0)
    pid = a.pid.upper()
    try:
        mod = importlib.import_module('harness.props.' + pid.lower())
    except ImportError as e:
        print(f'no check for {pid}: {e}', file=sys.stderr)
        sys.exit(2)
    chk = core.Check(pid, a.tier, seed)
    try:
        if a.replay:
            obj = json.load(open(a.replay))
            if hasattr(mod, 'replay'):
                sys.exit(mod.replay(chk, obj))
            print(json.dumps(obj, indent=1))
            sys.exit(0)
        rc = mod.run(chk)
        sys.exit(rc)
    except core.InfraError as e:
        print(f'INFRA-ERROR {pid}: {e}', file=sys.stderr)
        sys.exit(2)
    except Exception:
        tb = traceback.format_exc()
        traceback.print_exc()
        lib = os.path.join(core.REPO, 'src', 'peptacular')
        if lib in tb or not isinstance(sys.exc_info()[1], (OSError, MemoryError, subprocess.SubprocessError)):
            # a stage that never raises on the unchanged tree was aborted (by the library itself, or by the harness /
            # translator meeting source or attributes it can no longer read): the check could not be completed, so the
            # property is no longer shown to hold; report it (no concrete input) instead of crashing. Only operating-system
            # level failures (OSError, MemoryError, subprocess errors) and InfraError remain infrastructure exits.
            os.makedirs(core.REPLAY, exist_ok=True)
            path = os.path.join(core.REPLAY, f'{pid}-stage-exception.json')
            json.dump({'property': pid, 'kind': 'unproved', 'note': 'a check stage was aborted by an exception; the translation / correspondence / oracle of this property '
                       'could not be completed against this tree', 'traceback': tb[-6000:]},
                      open(path, 'w'), indent=1)
            print(f'VIOLATION property={pid} replay={path} no-failing-input-found')
            sys.exit(1)
        print(f'INFRA-ERROR {pid}: harness exception', file=sys.stderr)
        sys.exit(2)


if __name__ == '__main__':
    main()
