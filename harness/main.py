import argparse
import importlib
import json
import os
import sys
import traceback

from . import core


def main():
    ap = argparse.ArgumentParser()
    ap.add_argument('pid')
    ap.add_argument('--tier', default=os.environ.get('VERIF_TIER', 'quick'), choices=['quick', 'thorough'])
    ap.add_argument('--replay', default=None)
    a = ap.parse_args()
    seed = int(os.environ.get('VERIF_SEED', '0') or 0)
    pid = a.pid.upper()
    try:
        mod = importlib.import_module('harness.props.' + pid.lower())
    except ImportError as e:
        print(f'no check for {pid}: {e}', file=sys.stderr)
        sys.exit(2)
    chk = core.Check(pid, a.tier, seed)
    try:
        if a.replay:
            obj = json.load(open(a.replay))
            if hasattr(mod, 'replay'):
                sys.exit(mod.replay(chk, obj))
            print(json.dumps(obj, indent=1))
            sys.exit(0)
        rc = mod.run(chk)
        sys.exit(rc)
    except core.InfraError as e:
        print(f'INFRA-ERROR {pid}: {e}', file=sys.stderr)
        sys.exit(2)
    except Exception:
        traceback.print_exc()
        print(f'INFRA-ERROR {pid}: harness exception', file=sys.stderr)
        sys.exit(2)


if __name__ == '__main__':
    main()
