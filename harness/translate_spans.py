"""
Translator: /repo's CURRENT src/peptacular/spans.py (read with `ast`, never imported) ->
lean/PeptVerif/Generated/SpansPy.lean (namespace GenSpans) for the pure arithmetic span builders, and
lean/PeptVerif/Props/C06Gen.lean (one equality theorem `GenSpans.f = Spans.f` per translated function, assembled
from the hand-written proof scripts in harness/c06gen_template.lean).

The Python subset is deliberately tiny (see `Fn`): `if x is None: x = e` defaults, integer + - min max, span[k],
tuple unpacking of a span, (chained) comparisons, generator expressions / nested `for .. in range(a, b[, -1])` with an
`if` filter, `enumerate`, slices `l[a:b]`, `sorted(set(l))` (+ `.add`), `len`, conditional expressions with None,
calls of the other builders, `yield` / `yield from`, `if c: ...; return`.  Anything else makes THAT function
`untranslated`: no definition and no equality theorem are emitted for it and the hand model stays tied to the
implementation by correspondence only. The translator never raises.
"""
import ast
import os
import re
import subprocess

from . import core

TARGETS = ['build_non_enzymatic_spans', 'build_left_semi_spans', 'build_right_semi_spans', 'build_enzymatic_spans',
           'build_semi_spans', 'build_spans']
# functions that are NOT attempted (loop with break / look-ahead on the group): hand model only
HAND = {'_grouped_left_semi_span_builder': ('Spans.groupedLeft', ['ListSpan', 'OptInt', 'OptInt']),
        '_grouped_right_semi_span_builder': ('Spans.groupedRight', ['ListSpan', 'OptInt', 'OptInt'])}
HAND_MODEL = {'build_non_enzymatic_spans': 'Spans.buildNonEnzymatic', 'build_left_semi_spans': 'Spans.buildLeftSemi',
              'build_right_semi_spans': 'Spans.buildRightSemi', 'build_enzymatic_spans': 'Spans.buildEnzymatic',
              'build_semi_spans': 'Spans.buildSemi', 'build_spans': 'Spans.buildSpans'}
LEAN_TYPE = {'Int': 'Int', 'OptInt': 'Option Int', 'ListInt': 'List Int', 'Span': 'Spans.Span', 'ListSpan': 'List Spans.Span',
             'Bool': 'Bool'}
RESERVED = {'end', 'at', 'from', 'fun', 'let', 'in', 'do', 'then', 'else', 'if', 'match', 'with', 'have', 'show', 'open',
            'section', 'namespace', 'def', 'theorem', 'by', 'where', 'Type', 'Prop', 'Sort', 'instance', 'class', 'structure'}


class Untranslatable(Exception):
    pass


def lname(n):
    return n + '_' if n in RESERVED else n


def ann_type(a):
    t = ast.unparse(a) if a is not None else ''
    t = t.replace(' ', '')
    return {'int': 'Int', 'Optional[int]': 'OptInt', 'List[int]': 'ListInt', 'Iterable[int]': 'ListInt', 'Span': 'Span',
            'List[Span]': 'ListSpan', 'bool': 'Bool', 'Tuple[int,int,int]': 'Span'}.get(t)


class Fn:
    """translation of one function definition"""

    def __init__(self, node, sigs):
        self.node = node
        self.sigs = sigs           # name -> (lean name, [param names], [param types]) of callable functions
        self.k = 0                 # binder counter
        self.calls = set()

    # ------------------------------------------------------------------ signature
    @staticmethod
    def signature(node):
        a = node.args
        if a.vararg or a.kwarg or a.kwonlyargs or a.posonlyargs:
            raise Untranslatable('argument form')
        names = [x.arg for x in a.args]
        types = []
        defaults = [None] * (len(a.args) - len(a.defaults)) + list(a.defaults)
        none_checked = set()
        for st in node.body:
            if isinstance(st, ast.If) and Fn.is_none_test(st.test):
                none_checked.add(st.test.left.id)
        for x, d in zip(a.args, defaults):
            t = ann_type(x.annotation)
            if t is None:
                raise Untranslatable(f'annotation of {x.arg}')
            if t == 'Int' and (x.arg in none_checked or (isinstance(d, ast.Constant) and d.value is None)):
                t = 'OptInt'
            types.append(t)
        return names, types

    @staticmethod
    def is_none_test(t):
        return (isinstance(t, ast.Compare) and isinstance(t.left, ast.Name) and len(t.ops) == 1 and
                isinstance(t.ops[0], ast.Is) and isinstance(t.comparators[0], ast.Constant) and t.comparators[0].value is None)

    # ------------------------------------------------------------------ expressions
    def expr(self, e, env, want=None):
        """-> (lean text, type)"""
        if isinstance(e, ast.Constant):
            if e.value is None:
                return 'none', 'OptInt'
            if isinstance(e.value, bool):
                return ('true' if e.value else 'false'), 'Bool'
            if isinstance(e.value, int):
                return str(e.value), 'Int'
            raise Untranslatable('constant')
        if isinstance(e, ast.Name):
            if e.id not in env:
                raise Untranslatable(f'unknown name {e.id}')
            t = env[e.id]
            if isinstance(t, tuple):
                raise Untranslatable(f'{e.id} is a set under construction')
            return lname(e.id), t
        if isinstance(e, ast.UnaryOp) and isinstance(e.op, ast.USub):
            a, t = self.expr(e.operand, env)
            self.need(t, 'Int')
            return f'(-{a})', 'Int'
        if isinstance(e, ast.BinOp) and isinstance(e.op, (ast.Add, ast.Sub)):
            a, ta = self.expr(e.left, env)
            b, tb = self.expr(e.right, env)
            self.need(ta, 'Int')
            self.need(tb, 'Int')
            return f'({a} {"+" if isinstance(e.op, ast.Add) else "-"} {b})', 'Int'
        if isinstance(e, ast.Subscript):
            if isinstance(e.slice, ast.Slice):
                if e.slice.step is not None or e.slice.lower is None or e.slice.upper is None:
                    raise Untranslatable('slice form')
                l, tl = self.expr(e.value, env)
                if tl not in ('ListInt', 'ListSpan'):
                    raise Untranslatable('slice of a non-list')
                a, ta = self.expr(e.slice.lower, env)
                b, tb = self.expr(e.slice.upper, env)
                self.need(ta, 'Int')
                self.need(tb, 'Int')
                return f'(Spans.pySlice {l} {a} {b})', tl
            v, tv = self.expr(e.value, env)
            if tv == 'Span' and isinstance(e.slice, ast.Constant) and e.slice.value in (0, 1, 2):
                return f'{v}' + ['.1', '.2.1', '.2.2'][e.slice.value], 'Int'
            raise Untranslatable('subscript')
        if isinstance(e, ast.Tuple):
            if len(e.elts) != 3:
                raise Untranslatable('tuple arity')
            parts = []
            for x in e.elts:
                a, t = self.expr(x, env)
                self.need(t, 'Int')
                parts.append(a)
            return '(' + ', '.join(parts) + ')', 'Span'
        if isinstance(e, ast.IfExp):
            c = self.cond(e.test, env, prop=True)
            a, ta = self.expr(e.body, env)
            b, tb = self.expr(e.orelse, env)
            t = want or ('OptInt' if 'OptInt' in (ta, tb) else ta)
            return f'(if {c} then {self.coerce(a, ta, t)} else {self.coerce(b, tb, t)})', t
        if isinstance(e, ast.Call) and isinstance(e.func, ast.Name):
            f = e.func.id
            if f in ('min', 'max') and len(e.args) == 2 and not e.keywords:
                a, ta = self.expr(e.args[0], env)
                b, tb = self.expr(e.args[1], env)
                self.need(ta, 'Int')
                self.need(tb, 'Int')
                return f'({f} {a} {b})', 'Int'
            if f == 'len' and len(e.args) == 1:
                a, ta = self.expr(e.args[0], env)
                if ta not in ('ListInt', 'ListSpan'):
                    raise Untranslatable('len of a non-list')
                return f'({a}.length : Int)', 'Int'
            if f == 'list' and len(e.args) == 1 and not e.keywords:
                return self.expr(e.args[0], env)
            if f == 'sorted' and len(e.args) == 1 and not e.keywords:
                inner = e.args[0]
                if isinstance(inner, ast.Call) and isinstance(inner.func, ast.Name) and inner.func.id == 'set' and len(inner.args) == 1:
                    a, ta = self.expr(inner.args[0], env)
                    self.need(ta, 'ListInt')
                    return f'(Spans.sortDedup {a})', 'ListInt'
                if isinstance(inner, ast.Name) and isinstance(env.get(inner.id), tuple):
                    _, base, adds = env[inner.id]
                    return '(Spans.sortDedup (' + ''.join(x + ' :: ' for x in adds) + base + '))', 'ListInt'
                raise Untranslatable('sorted of something else than a set')
            if f in self.sigs:
                ln, pn, pt = self.sigs[f]
                args = [None] * len(pn)
                if len(e.args) > len(pn):
                    raise Untranslatable('too many arguments')
                for i, x in enumerate(e.args):
                    args[i] = x
                for kw in e.keywords:
                    if kw.arg not in pn or args[pn.index(kw.arg)] is not None:
                        raise Untranslatable('keyword argument')
                    args[pn.index(kw.arg)] = kw.value
                out = []
                for x, t in zip(args, pt):
                    if x is None:
                        if t == 'OptInt':
                            out.append('none')
                            continue
                        raise Untranslatable('missing argument')
                    a, ta = self.expr(x, env, want=t)
                    out.append(self.coerce(a, ta, t))
                self.calls.add(f)
                return '(' + ln + ' ' + ' '.join(out) + ')', 'ListSpan'
        if isinstance(e, ast.GeneratorExp):
            return self.genexp(e, env)
        if isinstance(e, ast.Call):
            raise Untranslatable('call of ' + ast.unparse(e.func))
        raise Untranslatable('expression ' + type(e).__name__)

    @staticmethod
    def need(t, w):
        if t != w:
            raise Untranslatable(f'type {t} where {w} is needed')

    @staticmethod
    def coerce(a, t, w):
        if t == w:
            return a
        if t == 'Int' and w == 'OptInt':
            return f'(some {a})'
        raise Untranslatable(f'type {t} where {w} is needed')

    OPS = {ast.Lt: '<', ast.LtE: '≤', ast.Gt: '>', ast.GtE: '≥', ast.Eq: '='}

    def cond(self, t, env, prop):
        """condition as a Prop (for `if`) or as a Bool (for filters)"""
        if isinstance(t, ast.Name):
            a, ta = self.expr(t, env)
            self.need(ta, 'Bool')
            return a
        if isinstance(t, ast.Compare):
            xs = [t.left] + list(t.comparators)
            parts = []
            for a, op, b in zip(xs, t.ops, xs[1:]):
                if type(op) not in self.OPS:
                    raise Untranslatable('comparison operator')
                x, tx = self.expr(a, env)
                y, ty = self.expr(b, env)
                self.need(tx, 'Int')
                self.need(ty, 'Int')
                parts.append(f'{x} {self.OPS[type(op)]} {y}')
            if prop:
                return '(' + ' ∧ '.join(parts) + ')'
            return ' && '.join(f'decide ({p})' for p in parts)
        raise Untranslatable('condition ' + type(t).__name__)

    # ------------------------------------------------------------------ iteration
    def iterable(self, it, env):
        """-> (lean list text, element type, is_enumerate)"""
        if isinstance(it, ast.Call) and isinstance(it.func, ast.Name) and it.func.id == 'range' and not it.keywords:
            if len(it.args) == 2:
                a, ta = self.expr(it.args[0], env)
                b, tb = self.expr(it.args[1], env)
                self.need(ta, 'Int')
                self.need(tb, 'Int')
                return f'(Spans.range {a} {b})', 'Int', False
            if len(it.args) == 3 and ast.unparse(it.args[2]) == '-1':
                a, ta = self.expr(it.args[0], env)
                b, tb = self.expr(it.args[1], env)
                self.need(ta, 'Int')
                self.need(tb, 'Int')
                return f'(Spans.rangeDown {a} {b})', 'Int', False
            raise Untranslatable('range form')
        if isinstance(it, ast.Call) and isinstance(it.func, ast.Name) and it.func.id == 'enumerate' and len(it.args) == 1 and not it.keywords:
            l, tl = self.expr(it.args[0], env)
            if tl not in ('ListInt', 'ListSpan'):
                raise Untranslatable('enumerate of a non-list')
            return f'({l}.zipIdx)', tl, True
        l, tl = self.expr(it, env)
        if tl == 'ListInt':
            return l, 'Int', False
        if tl == 'ListSpan':
            return l, 'Span', False
        raise Untranslatable('iterable')

    def binder(self, target, elt_t, is_enum, env):
        """-> (binder name, let-prefix text, new env)"""
        env = dict(env)
        if not is_enum:
            if not isinstance(target, ast.Name):
                raise Untranslatable('loop target')
            env[target.id] = elt_t
            return lname(target.id), '', env
        if not (isinstance(target, ast.Tuple) and len(target.elts) == 2 and all(isinstance(x, ast.Name) for x in target.elts)):
            raise Untranslatable('enumerate target')
        self.k += 1
        b = f'p{self.k}'
        i, x = target.elts[0].id, target.elts[1].id
        lets = ''
        if i != '_':
            env[i] = 'Int'
            lets += f'let {lname(i)} : Int := ({b}.2 : Int); '
        if x != '_':
            env[x] = 'Int' if elt_t == 'ListInt' else 'Span'
            lets += f'let {lname(x)} := {b}.1; '
        return b, lets, env

    def loop(self, target, it, conds, elt_fn, env, single_elt):
        """`for target in it [if conds]: <elt_fn(env)>`; single_elt: the body yields exactly one element"""
        l, et, en = self.iterable(it, env)
        b, lets, env2 = self.binder(target, et, en, env)
        src = l
        if conds:
            if len(conds) != 1:
                raise Untranslatable('several filters')
            c = self.cond(conds[0], env2, prop=False)
            src = f'({l}.filter fun {b} => {lets}{c})'
        body, is_self = elt_fn(env2, b if not en else None)
        if single_elt:
            if is_self:
                return src
            return f'({src}.map fun {b} => {lets}{body})'
        return f'({src}.flatMap fun {b} => {lets}{body})'

    def genexp(self, g, env):
        def level(k, env):
            gen = g.generators[k]
            if gen.is_async:
                raise Untranslatable('async')
            last = k == len(g.generators) - 1

            def elt_fn(env2, bname):
                if last:
                    a, ta = self.expr(g.elt, env2)
                    self.need(ta, 'Span')
                    return a, (isinstance(g.elt, ast.Name) and lname(g.elt.id) == bname)
                return level(k + 1, env2), False
            return self.loop(gen.target, gen.iter, gen.ifs, elt_fn, env, last)
        return level(0, env), 'ListSpan'

    # ------------------------------------------------------------------ statements
    def block(self, stmts, env, ind):
        """generator-function statements -> lean term of type List Span"""
        pad = '  ' * ind
        if not stmts:
            return '[]'
        st, rest = stmts[0], stmts[1:]

        def then_rest(term):
            if not rest:
                return term
            return f'({term} ++\n{pad}{self.block(rest, env, ind)})'

        if isinstance(st, ast.Expr) and isinstance(st.value, ast.Constant) and isinstance(st.value.value, str):
            return self.block(rest, env, ind)
        if isinstance(st, ast.If) and self.is_none_test(st.test):
            x = st.test.left.id
            if not (len(st.body) == 1 and not st.orelse and isinstance(st.body[0], ast.Assign) and len(st.body[0].targets) == 1 and
                    isinstance(st.body[0].targets[0], ast.Name) and st.body[0].targets[0].id == x and env.get(x) == 'OptInt'):
                raise Untranslatable('None default form')
            a, ta = self.expr(st.body[0].value, env)
            self.need(ta, 'Int')
            env = dict(env)
            env[x] = 'Int'
            return f'let {lname(x)} : Int := {lname(x)}.getD ({a})\n{pad}{self.block(rest, env, ind)}'
        if isinstance(st, ast.Assign) and len(st.targets) == 1:
            tg = st.targets[0]
            env = dict(env)
            if isinstance(tg, ast.Name):
                v = st.value
                if isinstance(v, ast.Call) and isinstance(v.func, ast.Name) and v.func.id == 'set' and len(v.args) == 1 and not v.keywords:
                    a, ta = self.expr(v.args[0], env)
                    self.need(ta, 'ListInt')
                    env[tg.id] = ('set', a, [])
                    return self.block(rest, env, ind)
                a, ta = self.expr(v, env)
                env[tg.id] = ta
                return f'let {lname(tg.id)} := {a}\n{pad}{self.block(rest, env, ind)}'
            if isinstance(tg, ast.Tuple) and len(tg.elts) == 3 and all(isinstance(x, ast.Name) for x in tg.elts):
                a, ta = self.expr(st.value, env)
                self.need(ta, 'Span')
                out = ''
                for x, proj in zip(tg.elts, ['.1', '.2.1', '.2.2']):
                    if x.id != '_':
                        env[x.id] = 'Int'
                        out += f'let {lname(x.id)} := {a}{proj}\n{pad}'
                return out + self.block(rest, env, ind)
            raise Untranslatable('assignment target')
        if isinstance(st, ast.Expr) and isinstance(st.value, ast.Call) and isinstance(st.value.func, ast.Attribute) and \
                st.value.func.attr == 'add' and isinstance(st.value.func.value, ast.Name) and len(st.value.args) == 1:
            x = st.value.func.value.id
            if not isinstance(env.get(x), tuple):
                raise Untranslatable('.add on something else than a set')
            a, ta = self.expr(st.value.args[0], env)
            self.need(ta, 'Int')
            env = dict(env)
            env[x] = ('set', env[x][1], env[x][2] + [a])
            return self.block(rest, env, ind)
        if isinstance(st, ast.Return):
            if rest:
                raise Untranslatable('code after return')
            if st.value is None:
                return '[]'
            v = st.value
            a, ta = self.expr(v, env)
            self.need(ta, 'ListSpan')
            return a
        if isinstance(st, ast.Expr) and isinstance(st.value, ast.Yield):
            v = st.value.value
            if v is None:
                raise Untranslatable('bare yield')
            a, ta = self.expr(v, env)
            self.need(ta, 'Span')
            return then_rest(f'[{a}]')
        if isinstance(st, ast.Expr) and isinstance(st.value, ast.YieldFrom):
            a, ta = self.expr(st.value.value, env)
            self.need(ta, 'ListSpan')
            return then_rest(a)
        if isinstance(st, ast.If):
            c = self.cond(st.test, env, prop=True)
            body = list(st.body)
            if body and isinstance(body[-1], ast.Return) and body[-1].value is None:
                a = self.block(body[:-1], env, ind + 1)
                b = self.block(list(st.orelse) + rest, env, ind + 1)
                return f'if {c} then\n{pad}  {a}\n{pad}else\n{pad}  {b}'
            a = self.block(body, env, ind + 1)
            b = self.block(list(st.orelse), env, ind + 1)
            return then_rest(f'(if {c} then\n{pad}  {a}\n{pad}else\n{pad}  {b})')
        if isinstance(st, ast.For):
            if st.orelse:
                raise Untranslatable('for-else')
            body = [x for x in st.body]
            conds = []
            if len(body) == 1 and isinstance(body[0], ast.If) and not body[0].orelse and len(body[0].body) == 1 and \
                    isinstance(body[0].body[0], ast.Expr) and isinstance(body[0].body[0].value, ast.Yield):
                conds = [body[0].test]
                body = body[0].body
            if len(body) == 1 and isinstance(body[0], ast.Expr) and isinstance(body[0].value, ast.Yield) and body[0].value.value is not None:
                y = body[0].value.value
                if isinstance(y, ast.Tuple) and not isinstance(y, ast.Name):
                    pass

                def elt_fn(env2, bname):
                    a, ta = self.expr(y, env2)
                    self.need(ta, 'Span')
                    return a, (isinstance(y, ast.Name) and lname(y.id) == bname)
                return then_rest(self.loop(st.target, st.iter, conds, elt_fn, env, True))

            def elt_fn2(env2, bname):
                return self.block(body, env2, ind + 2), False
            return then_rest(self.loop(st.target, st.iter, conds, elt_fn2, env, False))
        raise Untranslatable('statement ' + type(st).__name__)

    def translate(self):
        names, types = self.signature(self.node)
        env = dict(zip(names, types))
        body = self.block(list(self.node.body), env, 1)
        params = ' '.join(f'({lname(n)} : {LEAN_TYPE[t]})' for n, t in zip(names, types))
        return f'def {self.node.name} {params} : List Spans.Span :=\n  {body}\n'


def read_functions(repo):
    src = open(os.path.join(repo, 'src', 'peptacular', 'spans.py')).read()
    tree = ast.parse(src)
    return {n.name: n for n in tree.body if isinstance(n, ast.FunctionDef)}


HEADER = '''import PeptVerif.Model.Spans
/-! GENERATED by harness/translate_spans.py from src/peptacular/spans.py — do not edit.
Each definition is the literal reading of the Python function of the same name in the tiny subset the translator
accepts; `Props/C06Gen.lean` proves it equal to the hand-written model. -/
set_option linter.unusedVariables false
namespace GenSpans

'''


def emit(fns, skip):
    """-> (lean text, {name: reason} untranslated, [translated names])"""
    unt = dict(skip)
    sigs = {k: v for k, v in ((h, (HAND[h][0], ['spans', 'min_len', 'max_len'], HAND[h][1])) for h in HAND)}
    # signatures of the targets (needed for calls between them)
    for name in TARGETS:
        if name in unt:
            continue
        if name not in fns:
            unt[name] = 'function not found in spans.py'
            continue
        try:
            pn, pt = Fn.signature(fns[name])
            sigs[name] = (name, pn, pt)
        except Untranslatable as e:
            unt[name] = str(e)
        except Exception as e:  # noqa - the translator must never crash
            unt[name] = f'{type(e).__name__}: {e}'
    out = {}
    calls = {}
    for name in TARGETS:
        if name in unt:
            continue
        try:
            f = Fn(fns[name], {k: v for k, v in sigs.items() if k not in unt})
            out[name] = f.translate()
            calls[name] = f.calls
        except Untranslatable as e:
            unt[name] = str(e)
        except Exception as e:  # noqa
            unt[name] = f'{type(e).__name__}: {e}'
    # a function calling an untranslated target is untranslated too
    changed = True
    while changed:
        changed = False
        for name in list(out):
            bad = [c for c in calls[name] if c in unt and c not in HAND]
            if bad:
                unt[name] = f'calls untranslated {bad[0]}'
                del out[name]
                changed = True
    done = [n for n in TARGETS if n in out]
    text = HEADER + '\n'.join(out[n] for n in done) + '\nend GenSpans\n'
    return text, unt, done


def assemble_props(done, unt):
    tpl = open(os.path.join(os.path.dirname(__file__), 'c06gen_template.lean')).read()
    head = tpl[:tpl.index('-- BEGIN ')]
    parts = [head]
    for n in TARGETS:
        m = re.search(r'-- BEGIN %s\n(.*?)-- END %s\n' % (re.escape(n), re.escape(n)), tpl, re.S)
        if n in done and m:
            parts.append(m.group(1))
        else:
            parts.append(f'-- {n}: not translated ({unt.get(n, "no template")}); the hand model is tied by correspondence only\n\n')
    parts.append('end GenSpans\n')
    return ''.join(parts)


def write_if_changed(path, body):
    old = open(path).read() if os.path.exists(path) else None
    if old != body:
        os.makedirs(os.path.dirname(path), exist_ok=True)
        with open(path, 'w') as f:
            f.write(body)
        return True
    return False


def translate(chk=None, repo=None, check_compiles=True):
    """-> (translated names, {untranslated name: reason}); writes the two Lean files only when they change"""
    repo = repo or core.REPO
    gpath = os.path.join(core.LEAN, 'PeptVerif', 'Generated', 'SpansPy.lean')
    ppath = os.path.join(core.LEAN, 'PeptVerif', 'Props', 'C06Gen.lean')
    try:
        fns = read_functions(repo)
    except Exception as e:  # noqa
        fns = {}
        skip = {n: f'spans.py unreadable: {type(e).__name__}' for n in TARGETS}
    else:
        skip = {}
    text, unt, done = emit(fns, skip)
    old = open(gpath).read() if os.path.exists(gpath) else None
    if check_compiles and text != old:
        # a definition that does not elaborate (ill-typed reading) makes its function untranslated, never the run fail
        subprocess.run(['lake', 'build', 'PeptVerif.Model.Spans'], cwd=core.LEAN, capture_output=True, text=True)
        for _ in range(len(TARGETS)):
            tmp = os.path.join(core.LEAN, 'PeptVerif', 'Generated', 'SpansPyCandidate.lean')
            with open(tmp, 'w') as f:
                f.write(text)
            try:
                p = subprocess.run(['lake', 'env', 'lean', os.path.relpath(tmp, core.LEAN)], cwd=core.LEAN, capture_output=True,
                                   text=True, timeout=300)
                outp = p.stdout + p.stderr
            finally:
                os.remove(tmp)
            errs = [int(m.group(1)) for m in re.finditer(r'SpansPyCandidate\.lean:(\d+):\d+: error', outp)]
            if p.returncode == 0 and not errs:
                break
            lines = text.split('\n')
            bad = set()
            for ln in errs or [len(lines)]:
                for i in range(min(ln, len(lines)) - 1, -1, -1):
                    m = re.match(r'def (\w+) ', lines[i])
                    if m:
                        bad.add(m.group(1))
                        break
            if not bad:
                bad = set(done)
            for b in bad:
                skip[b] = 'generated definition does not elaborate'
            text, unt, done = emit(fns, skip)
    changed = []
    if write_if_changed(gpath, text):
        changed.append('Generated/SpansPy.lean')
    if write_if_changed(ppath, assemble_props(done, unt)):
        changed.append('Props/C06Gen.lean')
    if chk is not None:
        chk.generated_changed += changed
        chk.notes.append('spans.py functions translated mechanically (GenSpans): %s' % ', '.join(done))
        hand = list(HAND) + [f'{n} ({r})' for n, r in unt.items()]
        chk.notes.append('spans.py functions modelled by hand only: %s' % ', '.join(hand))
        for n, r in unt.items():
            chk.generated_changed.append(f'untranslated:{n}')
    return done, unt


if __name__ == '__main__':
    d, u = translate()
    print('translated:', d)
    print('untranslated:', u)
