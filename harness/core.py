"""
Shared machinery for every property check.

One check run =
  1. (optional) translate tables from /repo into lean/PeptVerif/Generated/*.lean
  2. build the property's Lean modules + driver, audit axioms  -> proof obligations
  3. correspondence: implementation (in-process) vs Lean model (driver, line protocol)
  4. oracle: the property itself evaluated on the implementation (failing-input search)
  5. known-finding matching, VIOLATION / KNOWN-FINDING lines, evidence file

Exit codes: 0 = held, 1 = violation (with a VIOLATION line), 2 = infrastructure failure.
"""
import fcntl
import hashlib
import json
import os
import random
import re
import subprocess
import sys
import time

VERIF = os.path.dirname(os.path.dirname(os.path.abspath(__file__)))
LEAN = os.path.join(VERIF, 'lean')
REPO = os.environ.get('VERIF_REPO', '/repo')
# scratch runs against a mutated tree (VERIF_REPO) must not overwrite the committed evidence of /repo itself
EVID = os.environ.get('VERIF_EVIDENCE_DIR') or os.path.join(VERIF, 'evidence')
REPLAY = os.path.join(EVID, 'replay')
# how many of the earliest passing cases of every correspondence / oracle stage are evaluated a second time at its end
RECHECK_N = int(os.environ.get('VERIF_RECHECK_N', '150'))
ALLOWED_AXIOMS = {'propext', 'Classical.choice', 'Quot.sound'}
FORBIDDEN = re.compile(r'\b(sorry|admit|native_decide|bv_decide|implemented_by|unsafe)\b|^\s*axiom\s|maxHeartbeats\s+0\b')

TRUSTED_BASE_COMMON = [
    'Lean 4.33 kernel (leanchecker re-check in the thorough tier)',
    'axioms: subset of {propext, Classical.choice, Quot.sound}, printed per theorem on every run; no native_decide/bv_decide/sorry',
    'the hand-written Lean model is tied to /repo only through the correspondence run of this check (differential, finite)',
    'harness: generators, canonicalisers, line protocol, CPython and the regex module behaving as on the explored inputs',
    'the reading of the English property into the Lean statements (DESIGN.md)',
]


class InfraError(Exception):
    pass


def strip_lean_comments(src):
    """remove /- -/ (nested) and -- comments"""
    out = []
    i = 0
    depth = 0
    n = len(src)
    while i < n:
        if src.startswith('/-', i):
            depth += 1
            i += 2
            continue
        if depth and src.startswith('-/', i):
            depth -= 1
            i += 2
            continue
        if depth:
            if src[i] == '\n':
                out.append('\n')
            i += 1
            continue
        if src.startswith('--', i):
            j = src.find('\n', i)
            if j < 0:
                j = n
            i = j
            continue
        out.append(src[i])
        i += 1
    return ''.join(out)


def theorems_in(path):
    """fully qualified names of `theorem` declarations in a Lean file (namespace stack aware)"""
    src = strip_lean_comments(open(path).read())
    stack = []
    names = []
    for line in src.split('\n'):
        m = re.match(r'\s*namespace\s+(\S+)', line)
        if m:
            stack.append(m.group(1))
            continue
        m = re.match(r'\s*end\s+(\S+)\s*$', line)
        if m and stack and stack[-1] == m.group(1):
            stack.pop()
            continue
        m = re.match(r'\s*(?:@\[[^\]]*\]\s*)?(?:private\s+|protected\s+)?theorem\s+(\S+)', line)
        if m:
            names.append('.'.join(stack + [m.group(1)]))
    return names


class Check:
    def __init__(self, pid, tier, seed):
        self.pid = pid
        self.tier = tier
        self.seed = seed
        self.rng = random.Random(seed * 1000003 + int(pid[1:]))
        self.t0 = time.time()
        self.obligations = []        # theorem names
        self.discharged = []         # theorem names with acceptable axioms
        self.lean_problems = []      # strings: broken theorems / forbidden tokens / bad axioms
        self.checker_cmds = []
        self.corr = {}               # name -> dict(evaluations, disagreements[], samples[])
        self.oracles = {}            # name -> dict(evaluations, nontrivial, failures[], samples)
        self.failures = []           # oracle failures: dict(oracle, case, detail)
        self.disagreements = []      # correspondence disagreements: dict(op, line, impl, model)
        self.distribution = {}
        self.nontrivial = set()
        self.evaluations = 0
        self.samples = []
        self.assumptions = []
        self.trusted = list(TRUSTED_BASE_COMMON)
        self.notes = []
        self.known = load_known().get(pid, [])
        self.generated_changed = []
        self.rule = ''
        self.exhaustive = None

    # ------------------------------------------------------------------ lean
    def lean_build(self, props_modules, driver=None, extra_targets=()):
        """build property modules (+ driver exe), audit axioms of every theorem in them.

        Modules whose name ends in `Gen` hold the *mechanical-tie* obligations (`Generated.f = HandModel.f` for code read
        off the current source by a subset translator, plus the transferred theorems). They are built separately: when one
        of them no longer checks, that piece is treated exactly like a construct outside the translator's subset
        (`untranslated`): the tie of the hand model to the code falls back to the correspondence run, the module's theorems
        are not counted, and the event is recorded in the evidence -- it is not by itself a violation. Every other module
        is strict: a theorem that no longer checks is a broken obligation."""
        gen_modules = [m for m in props_modules if m.endswith('Gen')]
        props_modules = [m for m in props_modules if not m.endswith('Gen')]
        ok = self._lean_build_strict(props_modules, driver, extra_targets)
        for gm in gen_modules:
            cmd = ['lake', 'build', gm]
            self.checker_cmds.append('cd lean && ' + ' '.join(cmd))
            with open(os.path.join(LEAN, '.lake', 'verif.lock'), 'w') as lk:
                fcntl.flock(lk, fcntl.LOCK_EX)
                p = subprocess.run(cmd, cwd=LEAN, capture_output=True, text=True)
            if p.returncode != 0:
                broken = self._broken_theorems(p.stdout + p.stderr, [gm])
                self.notes.append({'mechanical_tie_broken': gm, 'treated_as': 'untranslated (falls back to correspondence)',
                                   'errors': (broken or [(p.stdout + p.stderr)[-600:]])[:8]})
                self.generated_changed.append('tie-broken:' + gm)
                continue
            path = os.path.join(LEAN, gm.replace('.', '/') + '.lean')
            self.obligations += theorems_in(path)
            before = len(self.lean_problems)
            self._audit([gm])
            self._lean_modules.append(gm)
            if len(self.lean_problems) > before:
                ok = False
        self._grep_forbidden()
        return ok and not self.lean_problems

    def _lean_build_strict(self, props_modules, driver=None, extra_targets=()):
        targets = list(props_modules) + list(extra_targets) + ([driver] if driver else [])
        self._lean_modules = list(props_modules) + list(extra_targets) + (['Driver.' + driver[4:].upper()] if driver and driver.startswith('drv_c') else [])
        cmd = ['lake', 'build'] + targets
        self.checker_cmds.append('cd lean && ' + ' '.join(cmd))
        os.makedirs(os.path.join(LEAN, '.lake'), exist_ok=True)
        with open(os.path.join(LEAN, '.lake', 'verif.lock'), 'w') as lk:
            fcntl.flock(lk, fcntl.LOCK_EX)
            p = subprocess.run(cmd, cwd=LEAN, capture_output=True, text=True)
        out = p.stdout + p.stderr
        for mod in props_modules:
            path = os.path.join(LEAN, mod.replace('.', '/') + '.lean')
            ths = theorems_in(path)
            self.obligations += ths
        if p.returncode != 0:
            broken = self._broken_theorems(out, props_modules)
            self.lean_problems += broken or ['lake build failed: ' + out[-1500:]]
            # the driver may still be buildable on its own
            if driver:
                with open(os.path.join(LEAN, '.lake', 'verif.lock'), 'w') as lk:
                    fcntl.flock(lk, fcntl.LOCK_EX)
                    p2 = subprocess.run(['lake', 'build', driver], cwd=LEAN, capture_output=True, text=True)
                if p2.returncode != 0:
                    raise InfraError('driver build failed:\n' + (p2.stdout + p2.stderr)[-3000:])
            return False
        self._audit(props_modules)
        return not self.lean_problems

    def _broken_theorems(self, out, props_modules):
        res = []
        for m in re.finditer(r'error: (\S+?\.lean):(\d+):(\d+): (.*)', out):
            f, ln, msg = m.group(1), int(m.group(2)), m.group(4)
            path = f if os.path.isabs(f) else os.path.join(LEAN, f)
            name = self._decl_at(path, ln)
            res.append(f'{os.path.relpath(path, LEAN)}:{ln} {name}: {msg[:200]}')
        return res

    @staticmethod
    def _decl_at(path, ln):
        try:
            lines = open(path).read().split('\n')
        except OSError:
            return '?'
        for i in range(min(ln, len(lines)) - 1, -1, -1):
            m = re.match(r'\s*(?:@\[[^\]]*\]\s*)?(?:private\s+|protected\s+)?(theorem|def|example|instance|lemma)\s*(\S*)', lines[i])
            if m:
                return f'{m.group(1)} {m.group(2)}'
        return '?'

    def _audit(self, props_modules):
        for mod in props_modules:
            path = os.path.join(LEAN, mod.replace('.', '/') + '.lean')
            ths = theorems_in(path)
            short = mod.split('.')[-1]
            apath = os.path.join(LEAN, 'PeptVerif', 'Audit', short + '.lean')
            body = f'import {mod}\n' + ''.join(f'#print axioms {t}\n' for t in ths)
            os.makedirs(os.path.dirname(apath), exist_ok=True)
            if not os.path.exists(apath) or open(apath).read() != body:
                with open(apath, 'w') as f:
                    f.write(body)
            cmd = ['lake', 'env', 'lean', os.path.relpath(apath, LEAN)]
            self.checker_cmds.append('cd lean && ' + ' '.join(cmd))
            p = subprocess.run(cmd, cwd=LEAN, capture_output=True, text=True)
            out = p.stdout + p.stderr
            if p.returncode != 0:
                self.lean_problems.append(f'audit of {mod} failed: {out[-800:]}')
                continue
            seen = {}
            for m in re.finditer(r"'([^']+)' depends on axioms: \[([^\]]*)\]", out.replace('\n', ' ')):
                seen[m.group(1)] = {a.strip() for a in m.group(2).split(',') if a.strip()}
            for m in re.finditer(r"'([^']+)' does not depend on any axioms", out):
                seen[m.group(1)] = set()
            for t in ths:
                ax = seen.get(t)
                if ax is None:
                    self.lean_problems.append(f'no axiom report for {t}')
                elif ax - ALLOWED_AXIOMS:
                    self.lean_problems.append(f'{t} depends on non-whitelisted axioms {sorted(ax - ALLOWED_AXIOMS)}')
                else:
                    self.discharged.append(t)

    def _import_closure(self, modules):
        """files of the PeptVerif/Driver modules transitively imported by `modules`"""
        seen = {}
        todo = list(modules)
        while todo:
            m = todo.pop()
            if m in seen:
                continue
            path = os.path.join(LEAN, m.replace('.', '/') + '.lean')
            if not os.path.exists(path):
                continue
            seen[m] = path
            for mm in re.finditer(r'^\s*(?:public\s+)?import\s+((?:PeptVerif|Driver)\.[\w.]+)', open(path).read(), re.M):
                todo.append(mm.group(1))
        return seen

    def _grep_forbidden(self, modules=None):
        files = self._import_closure(self._lean_modules).values()
        for p in files:
            src = strip_lean_comments(open(p).read())
            for i, line in enumerate(src.split('\n'), 1):
                if FORBIDDEN.search(line):
                    self.lean_problems.append(f'forbidden token in {os.path.relpath(p, LEAN)}:{i}: {line.strip()[:80]}')

    def leanchecker(self, modules):
        cmd = ['lake', 'env', 'leanchecker'] + list(modules)
        self.checker_cmds.append('cd lean && ' + ' '.join(cmd))
        p = subprocess.run(cmd, cwd=LEAN, capture_output=True, text=True)
        if p.returncode != 0:
            self.lean_problems.append('leanchecker failed: ' + (p.stdout + p.stderr)[-800:])
        return p.returncode == 0

    # ---------------------------------------------------------------- driver
    def driver(self, exe, lines):
        """run the compiled driver on protocol lines; returns list of reply lines"""
        path = os.path.join(LEAN, '.lake', 'build', 'bin', exe)
        if not os.path.exists(path):
            raise InfraError(f'driver {exe} not built')
        data = ''.join(l + '\n' for l in lines)
        for l in lines:
            if '\n' in l:
                raise InfraError('newline inside protocol line: %r' % l[:80])
        p = subprocess.run([path], input=data, capture_output=True, text=True)
        if p.returncode != 0:
            raise InfraError(f'driver {exe} crashed: {p.stderr[-2000:]}')
        out = p.stdout.split('\n')
        if out and out[-1] == '':
            out.pop()
        if len(out) != len(lines):
            raise InfraError(f'driver {exe}: {len(lines)} requests, {len(out)} replies')
        return out

    # -------------------------------------------------------- correspondence
    def correspond(self, name, exe, cases, line_fn, impl_fn, compare=None, nontrivial_fn=None, max_report=5,
                   recheck=True):
        """cases -> protocol lines -> driver; impl_fn(case) -> canonical string; diff"""
        cases = list(cases)
        lines = [line_fn(c) for c in cases]
        model = self.driver(exe, lines) if cases else []
        st = self.corr.setdefault(name, {'evaluations': 0, 'disagreements': 0, 'samples': []})
        first = []
        for c, l, m in zip(cases, lines, model):
            try:
                im = impl_fn(c)
            except Exception as e:  # noqa
                im = 'EXC:' + type(e).__name__
            st['evaluations'] += 1
            self.evaluations += 1
            same = (compare(im, m) if compare else im == m)
            if nontrivial_fn is None or nontrivial_fn(c, im):
                self.nontrivial.add(name + '|' + l)
            if len(st['samples']) < 2 and (nontrivial_fn is None or nontrivial_fn(c, im)):
                st['samples'].append({'line': l, 'impl': im[:300], 'model': m[:300]})
            if not same:
                st['disagreements'] += 1
                if len([d for d in self.disagreements if d['op'] == name]) < max_report:
                    self.disagreements.append({'op': name, 'line': l, 'impl': im[:2000], 'model': m[:2000]})
            elif recheck and len(first) < RECHECK_N:
                first.append((c, l, im))
        # late re-evaluation: the same call, repeated after the rest of this stage, must give the same answer
        # (memoisation keyed too coarsely, cached results handed out and edited, state kept on objects ...)
        for c, l, im in first:
            try:
                im2 = impl_fn(c)
            except Exception as e:  # noqa
                im2 = 'EXC:' + type(e).__name__
            st['reevaluated'] = st.get('reevaluated', 0) + 1
            same2 = im2 == im
            if not same2 and compare:
                # comparators are written for (implementation, model); two implementation answers may not fit them
                try:
                    same2 = bool(compare(im2, im))
                except Exception:  # noqa
                    same2 = False
            if not same2:
                st['disagreements'] += 1
                if len([f for f in self.failures if f['oracle'] == name + '/re-evaluation']) < max_report:
                    self.failures.append({'oracle': name + '/re-evaluation', 'case': _jsonable(c),
                                          'detail': ('the implementation answered differently when the same call was repeated '
                                                     'later in the same process: first %s then %s (protocol line %s)'
                                                     % (im[:600], im2[:600], l[:300]))})
        return st['disagreements'] == 0

    # ---------------------------------------------------------------- oracle
    def oracle(self, name, cases, prop_fn, nontrivial_fn=None, max_report=5, key_fn=None, recheck=True):
        """prop_fn(case) -> None if the property holds on the implementation, else a description"""
        st = self.oracles.setdefault(name, {'evaluations': 0, 'failures': 0, 'samples': []})
        first = []
        for c in cases:
            st['evaluations'] += 1
            self.evaluations += 1
            try:
                r = prop_fn(c)
            except Exception as e:  # noqa
                r = f'unexpected {type(e).__name__}: {e}'
            if nontrivial_fn is None or nontrivial_fn(c):
                self.nontrivial.add(name + '|' + (key_fn(c) if key_fn else repr(c)))
                if len(st['samples']) < 2:
                    st['samples'].append(_jsonable(c))
            if r is not None:
                st['failures'] += 1
                if len([f for f in self.failures if f['oracle'] == name]) < max_report:
                    self.failures.append({'oracle': name, 'case': _jsonable(c), 'detail': str(r)[:2000]})
            elif recheck and len(first) < RECHECK_N:
                first.append(c)
        for c in first:
            try:
                r = prop_fn(c)
            except Exception as e:  # noqa
                r = f'unexpected {type(e).__name__}: {e}'
            st['reevaluated'] = st.get('reevaluated', 0) + 1
            if r is not None:
                st['failures'] += 1
                if len([f for f in self.failures if f['oracle'] == name + '/re-evaluation']) < max_report:
                    self.failures.append({'oracle': name + '/re-evaluation', 'case': _jsonable(c),
                                          'detail': 'held when first evaluated, fails when the same case is re-evaluated after '
                                                    'the rest of this stage (history dependence): ' + str(r)[:1800]})
        return st['failures'] == 0

    def count(self, key, k=1):
        self.distribution[key] = self.distribution.get(key, 0) + k

    def broken(self):
        return bool(self.lean_problems or self.disagreements)

    # ---------------------------------------------------------------- finish
    def finish(self, classify=None):
        """classify(failure) -> id of a known finding or None"""
        os.makedirs(REPLAY, exist_ok=True)
        viol_lines = []
        known_lines = []
        known_ids = {k['id']: k for k in self.known if k.get('status') == 'known'}
        unknown_fail = []
        seen_known = set()
        for f in self.failures:
            kid = classify(f) if classify else None
            if kid and kid in known_ids:
                if kid not in seen_known:
                    seen_known.add(kid)
                    known_lines.append(f"KNOWN-FINDING: property={self.pid} {known_ids[kid]['what']} [{kid}]")
            else:
                unknown_fail.append(f)
        for f in unknown_fail[:3]:
            path = self._write_replay({'property': self.pid, 'kind': 'oracle', **f})
            viol_lines.append(f'VIOLATION property={self.pid} replay={path}')
        if self.broken() and not unknown_fail:
            obj = {'property': self.pid, 'kind': 'unproved',
                   'lean_problems': self.lean_problems[:20],
                   'correspondence_disagreements': self.disagreements[:10],
                   'note': 'theorem(s) or correspondence named here no longer check; the failing-input search on the '
                           'implementation found no input violating the property'}
            path = self._write_replay(obj)
            viol_lines.append(f'VIOLATION property={self.pid} replay={path} no-failing-input-found')
        elif self.broken() and unknown_fail:
            # attach what broke to the first replay for context
            pass
        self._write_evidence(len(viol_lines), known_lines)
        for l in known_lines:
            print(l)
        for l in viol_lines:
            print(l)
        if viol_lines:
            for p in self.lean_problems[:10]:
                print('  lean:', p)
            for d in self.disagreements[:5]:
                print('  correspondence:', json.dumps(d)[:600])
            for f in unknown_fail[:5]:
                print('  oracle:', json.dumps(f)[:600])
        print(f'{self.pid} tier={self.tier} seed={self.seed} obligations={len(self.obligations)} '
              f'discharged={len(self.discharged)} evaluations={self.evaluations} '
              f'violations={len(viol_lines)} wall={time.time()-self.t0:.1f}s')
        return 1 if viol_lines else 0

    def _write_replay(self, obj):
        blob = json.dumps(obj, sort_keys=True, default=str)
        h = hashlib.sha1(blob.encode()).hexdigest()[:12]
        path = os.path.join(REPLAY, f'{self.pid}-{h}.json')
        with open(path, 'w') as f:
            json.dump(obj, f, indent=1, default=str)
        return path

    def _write_evidence(self, nviol, known_lines):
        os.makedirs(EVID, exist_ok=True)
        samples = []
        for t in self.obligations[:3]:
            samples.append({'theorem': t})
        for n, st in self.corr.items():
            for s in st['samples'][:2]:
                samples.append({'correspondence': n, **s})
        for n, st in self.oracles.items():
            for s in st['samples'][:1]:
                samples.append({'oracle': n, 'case': s})
        samples += self.samples[:5]
        cov = {
            'obligations': len(self.obligations),
            'discharged': len(self.discharged),
            'checker_cmd': ' && '.join(dict.fromkeys(self.checker_cmds)) or 'none',
            'trusted_base': self.trusted,
            'theorems': self.obligations,
            'undischarged': [t for t in self.obligations if t not in self.discharged],
            'lean_problems': self.lean_problems[:20],
            'evaluations': self.evaluations,
            'distinct_nontrivial': len(self.nontrivial),
            'rule': self.rule,
            'samples': samples or [{'note': 'no cases'}],
            'correspondence': {n: {k: v for k, v in st.items() if k != 'samples'} for n, st in self.corr.items()},
            'oracles': {n: {k: v for k, v in st.items() if k != 'samples'} for n, st in self.oracles.items()},
            'traces_validated_against_impl': sum(st['evaluations'] for st in self.corr.values()),
            'disagreements_checked': len(self.disagreements),
            'input_distribution': self.distribution,
            'known_findings_reproduced': known_lines,
            'generated_modules_changed': self.generated_changed,
            'notes': self.notes,
        }
        if self.exhaustive is not None:
            cov['exhaustive'] = bool(self.exhaustive)
        if cov['obligations'] < 1 or cov['discharged'] < 1:
            # the proof-level keys must be >= 1 to validate; a run whose theorems did not check reports the
            # counts under other names and is judged on the exploration-style counts instead
            cov['obligations_found'] = cov.pop('obligations')
            cov['discharged_found'] = cov.pop('discharged')
        ev = {
            'property_id': self.pid,
            'tier': self.tier,
            'seed': self.seed,
            'level': 'proof',
            'coverage': cov,
            'assumptions': self.assumptions,
            'wall_s': round(time.time() - self.t0, 2),
            'violations': nviol,
        }
        with open(os.path.join(EVID, self.pid + '.json'), 'w') as f:
            json.dump(ev, f, indent=1, default=str)


def _jsonable(c):
    try:
        json.dumps(c)
        return c
    except TypeError:
        return repr(c)


def load_known():
    path = os.path.join(VERIF, 'known_findings.json')
    res = {}
    if os.path.exists(path):
        for e in json.load(open(path)).get('findings', []):
            res.setdefault(e['property'], []).append(e)
    return res


def shrink_list(items, fails, min_len=0):
    """greedy delta-debugging on a list: remove chunks while `fails(list)` stays true"""
    items = list(items)
    chunk = max(1, len(items) // 2)
    while chunk >= 1:
        i = 0
        while i < len(items):
            cand = items[:i] + items[i + chunk:]
            if len(cand) >= min_len and fails(cand):
                items = cand
            else:
                i += chunk
        chunk //= 2
    return items
