"""
Translator: /repo's CURRENT src/peptacular/score.py (read with `ast`, never imported) ->
lean/PeptVerif/Generated/ScoreCorePy.lean (namespace GenScore) for the small pure pieces of score.py, and
lean/PeptVerif/Props/C17Gen.lean (equality theorems `GenScore.f = Score.f` and the property theorems of Props/C17
transferred to the generated definitions), assembled from the hand-written scripts in harness/c17gen_template.lean.

Pieces (each is translated or `untranslated` on its own; the translator never raises):
  window  get_matched_indices: the assignments inside the `for mz1 in …` loop that define the bounds of the window and the
          comparisons `ys[i] <op> bound` of the two `while` loops (the loop itself, its shared pointer and its three exits
          stay hand-modelled: Score.sweep)
  modes   match_spectra: the three `if mode == '…':` blocks (what is appended for a window `indexes`)
  covkey  get_match_coverage: the label f-string, the de-duplication key tuple and the `range(start, end)` of the increments
  share   get_matched_intensity_percentage: the whole body (dict-by-key de-duplication, the two sums, the zero guard, the quotient)

Subset: names, the float constant 1e6 and the integer 0, + - * /, `a if tolerance_type == 'th'|'ppm' else b`, `abs(a - b)`,
`ys[i] < e` / `<=` / `>` / `>=`, `indexes[0]`, `indexes[1]`, `fragments[i]`, `list(range(a, b))`, `[e for j in range(a, b)]` with
`L[j]` inside `e`, `L[a:b]`, `l.index(min(l))`, `l.index(max(l))`, `n + k`, tuples, `f"{'+' * x.charge}{x.ion_type}"`, attributes of the
loop variable from a fixed table, `{k: v for x in l}`, `sum(g for x in d.values())`, `sum(l)`, `if x == 0: return 0`, `return a / b`.
Everything is emitted with the combinators of Model/Score.lean (`Num.add … Num.lt`, `absDiff`, `slice`, `argBest`, `dictSet`,
`sumL`, `List.range'`), so the equalities with the hand model are `rfl` after a case split.
"""
import ast
import os
import re
import subprocess

from . import core

PIECES = ['window', 'modes', 'covkey', 'share']
RESERVED = {'end', 'at', 'from', 'fun', 'let', 'in', 'do', 'then', 'else', 'if', 'match', 'with', 'have', 'show', 'open',
            'section', 'namespace', 'def', 'theorem', 'by', 'where', 'Type', 'Prop', 'Sort', 'instance', 'class', 'structure',
            'max', 'min', 'matches', 'mutual', 'macro', 'syntax', 'set_option', 'universe', 'variable', 'example', 'end'}


class Untranslatable(Exception):
    pass


def lname(n):
    n = re.sub(r'[^A-Za-z0-9_]', '_', n)
    return n + '_' if n in RESERVED else n


CMP = {ast.Lt: ('Num.lt', False), ast.LtE: ('Num.le', False), ast.Gt: ('Num.lt', True), ast.GtE: ('Num.le', True)}


class Ex:
    """expression translation; env: python name -> (lean text, type). Types: num, nat, optnat, listnum, listnat, tol, pair,
    dictpair, bool, label, key(<n>), frag-field types"""

    def __init__(self, env, attrs=None, subst=None):
        self.env = dict(env)
        self.attrs = attrs or {}          # (var name, attribute) -> (lean text, type)
        self.subst = subst or {}          # ast.dump of a sub-expression -> (lean text, type)

    def need(self, got, want):
        if got != want:
            raise Untranslatable(f'type {got} where {want} is needed')

    def tr(self, e):
        d = ast.dump(e)
        if d in self.subst:
            return self.subst[d]
        if isinstance(e, ast.Constant):
            v = e.value
            if isinstance(v, bool) or v is None:
                raise Untranslatable('constant')
            if isinstance(v, (int, float)) and float(v) == 1e6:
                return 'Num.million', 'num'
            if isinstance(v, int) and v == 0:
                return 'Num.zero', 'num'
            raise Untranslatable(f'constant {v!r}')
        if isinstance(e, ast.Name):
            if e.id not in self.env:
                raise Untranslatable(f'unknown name {e.id}')
            return self.env[e.id]
        if isinstance(e, ast.Attribute) and isinstance(e.value, ast.Name):
            k = (e.value.id, e.attr)
            if k in self.attrs:
                return self.attrs[k]
            raise Untranslatable(f'attribute {e.value.id}.{e.attr}')
        if isinstance(e, ast.UnaryOp) and isinstance(e.op, ast.USub):
            a, t = self.tr(e.operand)
            self.need(t, 'num')
            return f'(Num.sub Num.zero {a})', 'num'
        if isinstance(e, ast.BinOp):
            a, ta = self.tr(e.left)
            b, tb = self.tr(e.right)
            if ta == 'num' and tb == 'num':
                op = {ast.Add: 'Num.add', ast.Sub: 'Num.sub', ast.Mult: 'Num.mul', ast.Div: 'Num.div'}.get(type(e.op))
                if op is None:
                    raise Untranslatable('operator')
                return f'({op} {a} {b})', 'num'
            if isinstance(e.op, ast.Add) and ta == 'nat' and tb == 'optnat':
                return f'({b}.map fun i => {a} + i)', 'optnat'
            if isinstance(e.op, ast.Add) and ta == 'nat' and tb == 'nat':
                return f'({a} + {b})', 'nat'
            raise Untranslatable('operand types')
        if isinstance(e, ast.IfExp):
            t = e.test
            if (isinstance(t, ast.Compare) and len(t.ops) == 1 and isinstance(t.ops[0], (ast.Eq, ast.NotEq)) and
                    isinstance(t.comparators[0], ast.Constant) and t.comparators[0].value in ('th', 'ppm')):
                v, tv = self.tr(t.left)
                self.need(tv, 'tol')
                a, ta = self.tr(e.body)
                b, tb = self.tr(e.orelse)
                self.need(ta, 'num')
                self.need(tb, 'num')
                if isinstance(t.ops[0], ast.NotEq):
                    a, b = b, a
                return f'(if {v} = Tol.{t.comparators[0].value} then {a} else {b})', 'num'
            raise Untranslatable('conditional expression')
        if isinstance(e, ast.Compare) and len(e.ops) == 1 and type(e.ops[0]) in CMP:
            a, ta = self.tr(e.left)
            b, tb = self.tr(e.comparators[0])
            self.need(ta, 'num')
            self.need(tb, 'num')
            f, flip = CMP[type(e.ops[0])]
            return (f'({f} {b} {a})' if flip else f'({f} {a} {b})'), 'bool'
        if isinstance(e, ast.Call):
            return self.call(e)
        if isinstance(e, ast.Subscript) and isinstance(e.slice, ast.Slice):
            sl = e.slice
            if sl.step is not None or sl.lower is None or sl.upper is None:
                raise Untranslatable('slice form')
            l, tl = self.tr(e.value)
            self.need(tl, 'listnum')
            a, ta = self.tr(sl.lower)
            b, tb = self.tr(sl.upper)
            self.need(ta, 'nat')
            self.need(tb, 'nat')
            return f'(slice {l} {a} {b})', 'listnum'
        if isinstance(e, ast.ListComp):
            return self.listcomp(e)
        if isinstance(e, ast.Tuple):
            parts = [self.tr(x) for x in e.elts]
            return '(' + ', '.join(p[0] for p in parts) + ')', 'tuple(' + ','.join(p[1] for p in parts) + ')'
        if isinstance(e, ast.JoinedStr):
            return self.fstring(e)
        raise Untranslatable('expression ' + type(e).__name__)

    def fstring(self, e):
        v = e.values
        if len(v) == 2 and all(isinstance(x, ast.FormattedValue) and x.format_spec is None and x.conversion == -1 for x in v):
            a, b = v[0].value, v[1].value
            if (isinstance(a, ast.BinOp) and isinstance(a.op, ast.Mult) and isinstance(a.left, ast.Constant) and a.left.value == '+'):
                n, tn = self.tr(a.right)
                s, ts = self.tr(b)
                self.need(tn, 'nat')
                self.need(ts, 'str')
                return f'({n}, {s})', 'label'
        raise Untranslatable('f-string')

    def call(self, e):
        f = e.func
        if e.keywords:
            raise Untranslatable('keyword arguments')
        if isinstance(f, ast.Name) and f.id == 'abs' and len(e.args) == 1:
            a = e.args[0]
            if isinstance(a, ast.BinOp) and isinstance(a.op, ast.Sub):
                x, tx = self.tr(a.left)
                y, ty = self.tr(a.right)
                self.need(tx, 'num')
                self.need(ty, 'num')
                return f'(absDiff {x} {y})', 'num'
            raise Untranslatable('abs of a non-difference')
        if isinstance(f, ast.Name) and f.id == 'list' and len(e.args) == 1:
            a = e.args[0]
            if isinstance(a, ast.Call) and isinstance(a.func, ast.Name) and a.func.id == 'range' and len(a.args) == 2:
                lo, tl = self.tr(a.args[0])
                hi, th = self.tr(a.args[1])
                self.need(tl, 'nat')
                self.need(th, 'nat')
                return f"(List.range' {lo} ({hi} - {lo}))", 'listnat'
            raise Untranslatable('list(...)')
        if isinstance(f, ast.Name) and f.id == 'sum' and len(e.args) == 1:
            a = e.args[0]
            if isinstance(a, ast.GeneratorExp):
                if len(a.generators) != 1 or a.generators[0].ifs or not isinstance(a.generators[0].target, ast.Name):
                    raise Untranslatable('generator form')
                g = a.generators[0]
                it = g.iter
                if (isinstance(it, ast.Call) and isinstance(it.func, ast.Attribute) and it.func.attr == 'values' and not it.args):
                    d, td = self.tr(it.func.value)
                    self.need(td, 'dictpair')
                    var = g.target.id
                    sub = Ex(self.env, {**self.attrs, (var, 'mz'): (f'{lname(var)}.1', 'num'),
                                        (var, 'intensity'): (f'{lname(var)}.2', 'num')})
                    body, tb = sub.tr(a.elt)
                    self.need(tb, 'num')
                    return f'(sumL (({d}.map (·.2)).map fun {lname(var)} => {body}))', 'num'
                raise Untranslatable('sum over a generator')
            l, tl = self.tr(a)
            self.need(tl, 'listnum')
            return f'(sumL {l})', 'num'
        if isinstance(f, ast.Attribute) and f.attr == 'index' and len(e.args) == 1:
            l, tl = self.tr(f.value)
            self.need(tl, 'listnum')
            a = e.args[0]
            if (isinstance(a, ast.Call) and isinstance(a.func, ast.Name) and a.func.id in ('min', 'max') and len(a.args) == 1
                    and not a.keywords and ast.dump(a.args[0]) == ast.dump(f.value)):
                better = 'fun v b => Num.lt v b' if a.func.id == 'min' else 'fun v b => Num.lt b v'
                return f'(argBest ({better}) {l})', 'optnat'
            raise Untranslatable('index of something else than min/max of the same list')
        raise Untranslatable('call')

    def listcomp(self, e):
        if len(e.generators) != 1:
            raise Untranslatable('comprehension form')
        g = e.generators[0]
        if g.ifs or not isinstance(g.target, ast.Name):
            raise Untranslatable('comprehension form')
        it = g.iter
        if not (isinstance(it, ast.Call) and isinstance(it.func, ast.Name) and it.func.id == 'range' and len(it.args) == 2):
            raise Untranslatable('comprehension source')
        lo, tl = self.tr(it.args[0])
        hi, th = self.tr(it.args[1])
        self.need(tl, 'nat')
        self.need(th, 'nat')
        idx = g.target.id
        # the element may read exactly one list at the loop index: L[idx] becomes the element of the slice
        lists = set()
        for n in ast.walk(e.elt):
            if isinstance(n, ast.Subscript) and isinstance(n.slice, ast.Name) and n.slice.id == idx and isinstance(n.value, ast.Name):
                lists.add(n.value.id)
            elif isinstance(n, ast.Name) and n.id == idx and not any(
                    isinstance(p, ast.Subscript) and p.slice is n for p in ast.walk(e.elt)):
                raise Untranslatable('loop index used outside a subscript')
        if len(lists) != 1:
            raise Untranslatable('comprehension reads no list or several lists at the index')
        L = lists.pop()
        l, tl = self.tr(ast.Name(id=L, ctx=ast.Load()))
        self.need(tl, 'listnum')
        sub = Ex(self.env, self.attrs, dict(self.subst))
        sub.subst[ast.dump(ast.Subscript(value=ast.Name(id=L, ctx=ast.Load()), slice=ast.Name(id=idx, ctx=ast.Load()), ctx=ast.Load()))] = ('y', 'num')
        body, tb = sub.tr(e.elt)
        self.need(tb, 'num')
        return f'((slice {l} {lo} {hi}).map fun y => {body})', 'listnum'


def lets(stmts, ex, ind='  '):
    """simple `name = expr` statements -> nested lets; returns (prefix text, ex with the names bound)"""
    out = ''
    for st in stmts:
        if not (isinstance(st, ast.Assign) and len(st.targets) == 1 and isinstance(st.targets[0], ast.Name)):
            raise Untranslatable('statement ' + type(st).__name__)
        v, t = ex.tr(st.value)
        n = lname(st.targets[0].id)
        out += f'{ind}let {n} := {v}\n'
        ex.env[st.targets[0].id] = (n, t)
    return out


def func(tree, name):
    for n in tree.body:
        if isinstance(n, ast.FunctionDef) and n.name == name:
            return n
    raise Untranslatable(f'function {name} not found')


def argnames(fn, k):
    a = fn.args
    if a.vararg or a.kwarg or a.kwonlyargs or a.posonlyargs or len(a.args) < k:
        raise Untranslatable('argument form')
    return [x.arg for x in a.args]


# ----------------------------------------------------------------------------- pieces

def piece_window(tree):
    fn = func(tree, 'get_matched_indices')
    xs, ys, tolv, tolt = argnames(fn, 4)[:4]
    loops = [s for s in fn.body if isinstance(s, ast.For) and isinstance(s.iter, ast.Name) and s.iter.id == xs
             and isinstance(s.target, ast.Name)]
    if len(loops) != 1:
        raise Untranslatable('the loop over the first spectrum')
    loop = loops[0]
    x = loop.target.id
    assigns = [s for s in loop.body if isinstance(s, ast.Assign) and len(s.targets) == 1 and isinstance(s.targets[0], ast.Name)
               and not (isinstance(s.value, ast.Name))]
    whiles = [s for s in loop.body if isinstance(s, ast.While)]
    if len(whiles) != 2:
        raise Untranslatable('expected two while loops')
    if any(isinstance(s, ast.AugAssign) for s in loop.body):
        raise Untranslatable('augmented assignment in the loop body')
    env = {tolt: (lname(tolt), 'tol'), tolv: (lname(tolv), 'num'), x: (lname(x), 'num')}
    params = f'({lname(tolt)} : Tol) ({lname(tolv)} {lname(x)} : α)'
    out = []
    names = []
    for k, (w, nm) in enumerate(zip(whiles, ('lower', 'upper'))):
        t = w.test
        if not (isinstance(t, ast.BoolOp) and isinstance(t.op, ast.And) and len(t.values) == 2):
            raise Untranslatable('while test')
        c = t.values[1]
        if not (isinstance(c, ast.Compare) and len(c.ops) == 1 and isinstance(c.left, ast.Subscript) and
                isinstance(c.left.value, ast.Name) and c.left.value.id == ys and isinstance(c.left.slice, ast.Name)):
            raise Untranslatable('while test: expected ys[i] <op> bound')
        if len(w.body) != 1 or not isinstance(w.body[0], ast.AugAssign):
            raise Untranslatable('while body')
        ex = Ex(env)
        pre = lets(assigns, ex)
        bound, tb = ex.tr(c.comparators[0])
        ex.need(tb, 'num')
        out.append(f'/-- the bound of the {nm} `while` loop of `get_matched_indices`: `{ast.unparse(c.comparators[0])}` -/\n'
                   f'def window_{nm}_bound [Num α] {params} : α :=\n{pre}  {bound}\n')
        ex2 = Ex(dict(env, y=('y', 'num')))
        ex2.subst[ast.dump(c.left)] = ('y', 'num')
        ex2.subst[ast.dump(c.comparators[0])] = (f'(window_{nm}_bound {lname(tolt)} {lname(tolv)} {lname(x)})', 'num')
        test, tt = ex2.tr(c)
        ex2.need(tt, 'bool')
        out.append(f'/-- the peak test of the {nm} `while` loop: `{ast.unparse(c)}` (`y` is the peak, the last argument the fragment) -/\n'
                   f'def window_{nm}_test [Num α] ({lname(tolt)} : Tol) ({lname(tolv)} : α) (y {lname(x)} : α) : Bool :=\n  {test}\n')
    return '\n'.join(out)


def piece_modes(tree):
    fn = func(tree, 'match_spectra')
    args = argnames(fn, 6)
    frs, ys, tolv, tolt, mode, ints = args[:6]
    loops = [s for s in fn.body if isinstance(s, ast.For)]
    if len(loops) != 1:
        raise Untranslatable('the loop over the windows')
    loop = loops[0]
    if not (isinstance(loop.target, ast.Tuple) and len(loop.target.elts) == 2 and all(isinstance(t, ast.Name) for t in loop.target.elts)
            and isinstance(loop.iter, ast.Call) and isinstance(loop.iter.func, ast.Name) and loop.iter.func.id == 'enumerate'):
        raise Untranslatable('expected `for i, indexes in enumerate(...)`')
    i, w = loop.target.elts[0].id, loop.target.elts[1].id
    if not (len(loop.body) == 1 and isinstance(loop.body[0], ast.If)):
        raise Untranslatable('loop body')
    blocks = loop.body[0].orelse
    found = {}
    res = None
    for st in blocks:
        if not (isinstance(st, ast.If) and not st.orelse and isinstance(st.test, ast.Compare) and len(st.test.ops) == 1 and
                isinstance(st.test.ops[0], ast.Eq) and isinstance(st.test.left, ast.Name) and st.test.left.id == mode and
                isinstance(st.test.comparators[0], ast.Constant) and st.test.comparators[0].value in ('all', 'closest', 'largest')):
            raise Untranslatable('expected `if mode == \'…\':` blocks only')
        m = st.test.comparators[0].value
        if m in found:
            raise Untranslatable(f'two blocks for mode {m}')
        last = st.body[-1]
        if not (isinstance(last, ast.Expr) and isinstance(last.value, ast.Call) and isinstance(last.value.func, ast.Attribute) and
                last.value.func.attr == 'append' and isinstance(last.value.func.value, ast.Name) and len(last.value.args) == 1):
            raise Untranslatable('block does not end in results.append(...)')
        res = res or last.value.func.value.id
        found[m] = (st.body[:-1], last.value.args[0])
    if set(found) != {'all', 'closest', 'largest'}:
        raise Untranslatable('modes found: ' + ','.join(sorted(found)))
    out = []
    for m, want, params in (('all', 'listnat', '(s e : Nat)'),
                            ('closest', 'optnat', f'({lname(ys)} : List α) (x : α) (s e : Nat)'),
                            ('largest', 'optnat', f'({lname(ints)} : List α) (s e : Nat)')):
        env = {}
        if m == 'closest':
            env[ys] = (lname(ys), 'listnum')
        if m == 'largest':
            env[ints] = (lname(ints), 'listnum')
        ex = Ex(env)
        sub = lambda k: ast.dump(ast.Subscript(value=ast.Name(id=w, ctx=ast.Load()), slice=ast.Constant(value=k), ctx=ast.Load()))  # noqa
        ex.subst[sub(0)] = ('s', 'nat')
        ex.subst[sub(1)] = ('e', 'nat')
        if m == 'closest':
            ex.subst[ast.dump(ast.Subscript(value=ast.Name(id=frs, ctx=ast.Load()), slice=ast.Name(id=i, ctx=ast.Load()), ctx=ast.Load()))] = ('x', 'num')
        stmts, val = found[m]
        pre = lets(stmts, ex)
        v, tv = ex.tr(val)
        ex.need(tv, want)
        typ = 'List Nat' if want == 'listnat' else 'Option Nat'
        inst = '' if m == 'all' else '[Num α] '
        out.append(f'/-- `match_spectra`, block `if mode == \'{m}\'`: what is appended for the window `(s, e)` = `{w}` -/\n'
                   f'def mode_{m} {inst}{params} : {typ} :=\n{pre}  {v}\n')
    return '\n'.join(out)


FRAG_ATTRS = {'charge': ('{v}.charge.natAbs', 'nat'), 'ion_type': ('(String.ofList {v}.ion.name)', 'str'), 'start': ('{v}.start', 'int'),
              'end': ('{v}.stop', 'int'), 'isotope': ('{v}.isotope', 'int'), 'loss': ('{v}.loss', 'rat'),
              'monoisotopic': ('{v}.monoisotopic', 'boolf'), 'internal': ('{v}.internal', 'boolf'), 'mz': ('{v}.mz', 'rat')}


def piece_covkey(tree):
    fn = func(tree, 'get_match_coverage')
    ms = argnames(fn, 1)[0]
    loops = [s for s in fn.body if isinstance(s, ast.For) and isinstance(s.iter, ast.Name) and s.iter.id == ms and isinstance(s.target, ast.Name)]
    if len(loops) != 1:
        raise Untranslatable('the loop over the matches')
    loop = loops[0]
    v = loop.target.id
    attrs = {(v, a): (t.format(v='f'), ty) for a, (t, ty) in FRAG_ATTRS.items()}
    ex = Ex({}, attrs)
    label = key = None
    span = None
    for st in loop.body:
        if isinstance(st, ast.Assign) and len(st.targets) == 1 and isinstance(st.targets[0], ast.Name):
            if isinstance(st.value, ast.JoinedStr):
                label = st
            elif isinstance(st.value, ast.Tuple):
                key = st
        if isinstance(st, ast.For) and isinstance(st.iter, ast.Call) and isinstance(st.iter.func, ast.Name) and st.iter.func.id == 'range':
            span = st
    if label is None or key is None or span is None:
        raise Untranslatable('label f-string, key tuple or range(start, end) loop not found')
    # the key must be what the `counted` set tests: `if key in counted: continue`
    tests = [st for st in loop.body if isinstance(st, ast.If) and isinstance(st.test, ast.Compare) and isinstance(st.test.ops[0], ast.In)
             and isinstance(st.test.left, ast.Name) and st.test.left.id == key.targets[0].id
             and len(st.body) == 1 and isinstance(st.body[0], ast.Continue)]
    if len(tests) != 1:
        raise Untranslatable('`if key in counted: continue` not found')
    lab, tl = ex.tr(label.value)
    ex.need(tl, 'label')
    ex.env[label.targets[0].id] = ('(coverage_label f)', 'label')
    k, tk = ex.tr(key.value)
    if len(span.iter.args) != 2:
        raise Untranslatable('range form')
    a, ta = ex.tr(span.iter.args[0])
    b, tb = ex.tr(span.iter.args[1])
    ex.need(ta, 'int')
    ex.need(tb, 'int')
    return (f'/-- `{ast.unparse(label)}` as (number of `+`, ion type) -/\n'
            f'def coverage_label (f : Fragment.Frag) := {lab}\n\n'
            f'/-- `{ast.unparse(key)}` -/\n'
            f'def coverage_key (f : Fragment.Frag) := {k}\n\n'
            f'/-- the residues incremented: `{ast.unparse(span.iter)}` -/\n'
            f'def coverage_span (f : Fragment.Frag) : Int × Int := ({a}, {b})\n')


def piece_share(tree):
    fn = func(tree, 'get_matched_intensity_percentage')
    ms, ints = argnames(fn, 2)[:2]
    body = [s for s in fn.body if not (isinstance(s, ast.Expr) and isinstance(s.value, ast.Constant))]
    env = {ms: (lname(ms), 'listpair'), ints: (lname(ints), 'listnum')}
    ex = Ex(env)
    text = ''
    for k, st in enumerate(body):
        if isinstance(st, ast.Assign) and len(st.targets) == 1 and isinstance(st.targets[0], ast.Name):
            n = st.targets[0].id
            if isinstance(st.value, ast.DictComp):
                d = st.value
                if len(d.generators) != 1 or d.generators[0].ifs or not isinstance(d.generators[0].target, ast.Name):
                    raise Untranslatable('dict comprehension form')
                g = d.generators[0]
                src, ts = ex.tr(g.iter)
                ex.need(ts, 'listpair')
                var = g.target.id
                if not (isinstance(d.value, ast.Name) and d.value.id == var):
                    raise Untranslatable('dict value is not the element')
                sub = Ex(ex.env, {(var, 'mz'): (f'{lname(var)}.1', 'num'), (var, 'intensity'): (f'{lname(var)}.2', 'num')})
                kx, tk = sub.tr(d.key)
                sub.need(tk, 'num')
                text += f'  let {lname(n)} := {src}.foldl (fun d {lname(var)} => dictSet Num.eq {kx} {lname(var)} d) []\n'
                ex.env[n] = (lname(n), 'dictpair')
            else:
                v, t = ex.tr(st.value)
                text += f'  let {lname(n)} := {v}\n'
                ex.env[n] = (lname(n), t)
        elif (isinstance(st, ast.If) and not st.orelse and len(st.body) == 1 and isinstance(st.body[0], ast.Return)
              and isinstance(st.test, ast.Compare) and len(st.test.ops) == 1 and isinstance(st.test.ops[0], ast.Eq)):
            a, ta = ex.tr(st.test.left)
            b, tb = ex.tr(st.test.comparators[0])
            r, tr_ = ex.tr(st.body[0].value)
            for t in (ta, tb, tr_):
                ex.need(t, 'num')
            text += f'  if Num.eq {a} {b} then {r} else\n'
        elif isinstance(st, ast.Return) and k == len(body) - 1 and st.value is not None:
            v, t = ex.tr(st.value)
            ex.need(t, 'num')
            text += f'  {v}\n'
            return (f'/-- `get_matched_intensity_percentage`: matches as (mz, intensity) pairs -/\n'
                    f'def matched_intensity_share [Num α] ({lname(ms)} : List (α × α)) ({lname(ints)} : List α) : α :=\n{text}')
        else:
            raise Untranslatable('statement ' + type(st).__name__)
    raise Untranslatable('no final return')


PIECE_FN = {'window': piece_window, 'modes': piece_modes, 'covkey': piece_covkey, 'share': piece_share}

HEADER = '''import PeptVerif.Model.Score
import PeptVerif.Model.ScoreFrag
/-! GENERATED by harness/translate_scorecore.py from src/peptacular/score.py — do not edit.
Each definition is the literal reading, in the tiny subset the translator accepts, of a piece of the Python function
named in its comment; `Props/C17Gen.lean` proves it equal to the hand-written model. -/
set_option linter.unusedVariables false
namespace GenScore
open Score
variable {α : Type}

'''


def emit(tree, skip):
    unt = dict(skip)
    out = {}
    for p in PIECES:
        if p in unt:
            continue
        try:
            out[p] = PIECE_FN[p](tree)
        except Untranslatable as e:
            unt[p] = str(e)
        except Exception as e:  # noqa - the translator must never crash
            unt[p] = f'{type(e).__name__}: {e}'
    done = [p for p in PIECES if p in out]
    text = HEADER + '\n'.join(f'-- piece: {p}\n{out[p]}' for p in done) + '\nend GenScore\n'
    return text, unt, done


def assemble_props(done, unt):
    tpl = open(os.path.join(os.path.dirname(__file__), 'c17gen_template.lean')).read()
    head = tpl[:tpl.index('-- BEGIN ')]
    parts = [head]
    for p in PIECES:
        m = re.search(r'-- BEGIN %s\n(.*?)-- END %s\n' % (p, p), tpl, re.S)
        if p in done and m:
            parts.append(m.group(1))
        else:
            parts.append(f'-- piece {p}: not translated ({unt.get(p, "no template")}); the hand model is tied by correspondence only\n\n')
    parts.append('end GenScore\n')
    return ''.join(parts)


def write_if_changed(path, body):
    old = open(path).read() if os.path.exists(path) else None
    if old != body:
        os.makedirs(os.path.dirname(path), exist_ok=True)
        with open(path, 'w') as f:
            f.write(body)
        return True
    return False


def translate(chk=None, repo=None, check_compiles=True):
    """-> (translated pieces, {untranslated piece: reason}); writes the two Lean files only when they change"""
    repo = repo or core.REPO
    gpath = os.path.join(core.LEAN, 'PeptVerif', 'Generated', 'ScoreCorePy.lean')
    ppath = os.path.join(core.LEAN, 'PeptVerif', 'Props', 'C17Gen.lean')
    skip = {}
    try:
        tree = ast.parse(open(os.path.join(repo, 'src', 'peptacular', 'score.py')).read())
    except Exception as e:  # noqa
        tree = ast.parse('')
        skip = {p: f'score.py unreadable: {type(e).__name__}' for p in PIECES}
    text, unt, done = emit(tree, skip)
    old = open(gpath).read() if os.path.exists(gpath) else None
    if check_compiles and text != old:
        # a reading that does not elaborate makes its piece untranslated, never the run fail
        subprocess.run(['lake', 'build', 'PeptVerif.Model.ScoreFrag'], cwd=core.LEAN, capture_output=True, text=True)
        for _ in range(len(PIECES)):
            tmp = os.path.join(core.LEAN, 'PeptVerif', 'Generated', 'ScoreCorePyCandidate.lean')
            with open(tmp, 'w') as f:
                f.write(text)
            try:
                p = subprocess.run(['lake', 'env', 'lean', os.path.relpath(tmp, core.LEAN)], cwd=core.LEAN, capture_output=True,
                                   text=True, timeout=300)
                outp = p.stdout + p.stderr
            except Exception as e:  # noqa
                outp = f'ScoreCorePyCandidate.lean:1:0: error {e}'
                p = None
            finally:
                if os.path.exists(tmp):
                    os.remove(tmp)
            errs = [int(m.group(1)) for m in re.finditer(r'ScoreCorePyCandidate\.lean:(\d+):\d+: error', outp)]
            if p is not None and p.returncode == 0 and not errs:
                break
            lines = text.split('\n')
            bad = set()
            for ln in errs or [len(lines)]:
                for i in range(min(ln, len(lines)) - 1, -1, -1):
                    m = re.match(r'-- piece: (\w+)', lines[i])
                    if m:
                        bad.add(m.group(1))
                        break
            if not bad:
                bad = set(done)
            for b in bad:
                skip[b] = 'generated definition does not elaborate'
            text, unt, done = emit(tree, skip)
    changed = []
    if write_if_changed(gpath, text):
        changed.append('Generated/ScoreCorePy.lean')
    if write_if_changed(ppath, assemble_props(done, unt)):
        changed.append('Props/C17Gen.lean')
    if chk is not None:
        chk.generated_changed += changed
        chk.notes.append('score.py pieces translated mechanically (GenScore): %s' % (', '.join(done) or 'none'))
        if unt:
            chk.notes.append('score.py pieces modelled by hand only on this run: ' + ', '.join(f'{n} ({r})' for n, r in unt.items()))
        for n in unt:
            chk.generated_changed.append(f'untranslated:{n}')
    return done, unt


if __name__ == '__main__':
    d, u = translate()
    print('translated:', d)
    print('untranslated:', u)
