"""
Translator: /repo's CURRENT serializer source (proforma_dataclasses.Mod.serialize, proforma_parser._serialize_annotation_start /
_middle / _end / _serialize_annotation, MultiProFormaAnnotation.serialize), read with `ast` and never imported ->
lean/PeptVerif/Generated/SerializerPy.lean (namespace GenSer), written with the combinators of
lean/PeptVerif/Model/SerializeC.lean, and lean/PeptVerif/Props/C01Gen.lean (one equality theorem `GenSer.f = Pept.f` per
translated function plus the transferred round-trip / totality theorems).

Python subset (everything else makes THAT function `untranslated`; the translator never raises):
  comps = []                                    first statement
  comps.append(E)                               E: string constant | residue variable | f-string of constants, int / value fields,
                                                   string variables | mod.serialize('<2 chars>', include_plus)
  if X.has_f():  /  if X.f is not None:          -> ifSome        (X.f_mods / X.f inside the body is the bound value)
  if X.f:   (f an optional list)                 -> ifTruthy      (not None and not empty)
  if X.charge:   (truthiness of the charge)      -> ifNonzero
  if X.ambiguous:                                -> ifB
  if A == B:   (ints)                            -> ifB (A = B)
  if D and i in D:  with  D[i] in the body       -> ifInDict
  for v in L:                                    -> forEach
  for i, aa in enumerate(annotation.sequence):   -> forEnum
  i = len(annotation.sequence)                   -> let
  return ''.join(comps)                          last statement
  Mod.serialize: `if include_plus is True: v = A if C else B / else: v = B`, `return F1 if self.mult > 1 else F2`
  _serialize_annotation: `return f(a, p) + g(a, p) + h(a, p)`
  MultiProFormaAnnotation.serialize: the fixed loop shape with two free string constants (the joiners)
Python's `include_plus` (one bool) is the model's `plus : Mod -> Bool` applied to the modification being written.
"""
import ast
import os
import re
import subprocess

from . import core

FIELDS = {'labile_mods': 'labile', 'static_mods': 'static', 'isotope_mods': 'isotope', 'unknown_mods': 'unknown',
          'nterm_mods': 'nterm', 'cterm_mods': 'cterm', 'internal_mods': 'internal', 'intervals': 'intervals', 'charge': 'charge',
          'charge_adducts': 'adducts', 'sequence': 'seq'}
HAS = {'has_labile_mods': 'labile', 'has_static_mods': 'static', 'has_isotope_mods': 'isotope', 'has_unknown_mods': 'unknown',
       'has_nterm_mods': 'nterm', 'has_cterm_mods': 'cterm', 'has_internal_mods': 'internal', 'has_intervals': 'intervals',
       'has_charge': 'charge', 'has_charge_adducts': 'adducts'}
LIST_FIELDS = {'labile', 'static', 'isotope', 'unknown', 'nterm', 'cterm', 'intervals', 'adducts'}
IV_FIELDS = {'start': 'start', 'end': 'stop', 'ambiguous': 'ambiguous', 'mods': 'mods'}
TARGETS = ['mod_serialize', 'serialize_annotation_start', 'serialize_annotation_middle', 'serialize_annotation_end',
           'serialize_annotation', 'multi_serialize']
HAND = {'mod_serialize': 'Pept.Mod.serialize', 'serialize_annotation_start': 'Pept.serializeStart',
        'serialize_annotation_middle': 'Pept.serializeMiddle', 'serialize_annotation_end': 'Pept.serializeEnd',
        'serialize_annotation': 'Pept.serialize', 'multi_serialize': 'Pept.serializeMulti'}


class Untranslatable(Exception):
    pass


def chars(s):
    """Lean literal of a Python string as List Char"""
    def one(ch):
        if ch == '\\':
            return "'\\\\'"
        if ch == "'":
            return "'\\''"
        if not (32 <= ord(ch) < 127):
            raise Untranslatable('non-printable character in a string constant')
        return "'" + ch + "'"
    return '[' + ', '.join(one(c) for c in s) + ']'


def cat(parts):
    """right-nested concatenation"""
    parts = [p for p in parts if p is not None]
    if not parts:
        return '[]'
    out = parts[-1]
    for p in reversed(parts[:-1]):
        out = f'{p} ++ ({out})' if ' ' in out else f'{p} ++ {out}'
    return out


class Block:
    """translation of the `comps` statement subset; `mod_fn` = Lean name of the per-modification serializer"""

    def __init__(self, mod_fn, ann='annotation'):
        self.mod_fn = mod_fn
        self.ann = ann
        self.k = 0

    def fresh(self, base):
        self.k += 1
        return f'{base}{self.k}'

    # -- classification of an attribute chain `annotation.f` / `interval.f`
    def field(self, e, env):
        if isinstance(e, ast.Attribute) and isinstance(e.value, ast.Name):
            if e.value.id == self.ann and e.attr in FIELDS:
                return ('ann', FIELDS[e.attr])
            if env.get(e.value.id) == 'interval' and e.attr in IV_FIELDS:
                return ('iv', e.value.id, IV_FIELDS[e.attr])
        return None

    def int_expr(self, e, env, bound):
        key = ast.unparse(e)
        if key in bound:
            return bound[key]
        if isinstance(e, ast.Name) and env.get(e.id) == 'int':
            return e.id
        f = self.field(e, env)
        if f and f[0] == 'iv' and f[2] in ('start', 'stop'):
            return f'{f[1]}.{f[2]}'
        raise Untranslatable('integer expression ' + key)

    def str_expr(self, e, env, bound):
        if isinstance(e, ast.Constant) and isinstance(e.value, str):
            return chars(e.value)
        if isinstance(e, ast.Name) and env.get(e.id) == 'char':
            return f'[{e.id}]'
        if isinstance(e, ast.JoinedStr):
            parts = []
            for v in e.values:
                if isinstance(v, ast.Constant):
                    parts.append(chars(v.value))
                elif isinstance(v, ast.FormattedValue) and v.conversion == -1 and v.format_spec is None:
                    key = ast.unparse(v.value)
                    if key in bound and bound[key + ':type'] == 'int':
                        parts.append(f'Pept.intText {bound[key]}')
                    else:
                        raise Untranslatable('f-string part ' + key)
                else:
                    raise Untranslatable('f-string with conversion / format spec')
            return cat(parts)
        if (isinstance(e, ast.Call) and isinstance(e.func, ast.Attribute) and e.func.attr == 'serialize'
                and isinstance(e.func.value, ast.Name) and env.get(e.func.value.id) == 'mod' and len(e.args) == 2
                and not e.keywords and isinstance(e.args[0], ast.Constant) and isinstance(e.args[0].value, str)
                and len(e.args[0].value) == 2 and isinstance(e.args[1], ast.Name) and e.args[1].id == 'include_plus'):
            o, c = e.args[0].value
            m = e.func.value.id
            return f"{self.mod_fn} {chars(o)[1:-1]} {chars(c)[1:-1]} (plus {m}) {m}"
        raise Untranslatable('string expression ' + ast.unparse(e))

    def list_expr(self, e, env, bound):
        key = ast.unparse(e)
        if key in bound and bound[key + ':type'] in ('mods', 'intervals'):
            return bound[key], bound[key + ':type']
        raise Untranslatable('list expression ' + key + ' (not guarded)')

    def stmts(self, body, env, bound):
        parts = []
        i = 0
        while i < len(body):
            st = body[i]
            # comps.append(E)
            if (isinstance(st, ast.Expr) and isinstance(st.value, ast.Call) and isinstance(st.value.func, ast.Attribute)
                    and st.value.func.attr == 'append' and isinstance(st.value.func.value, ast.Name)
                    and st.value.func.value.id == 'comps' and len(st.value.args) == 1 and not st.value.keywords):
                parts.append(self.str_expr(st.value.args[0], env, bound))
            elif isinstance(st, ast.If) and not st.orelse:
                parts.append(self.if_stmt(st, env, bound))
            elif isinstance(st, ast.For) and not st.orelse:
                parts.append(self.for_stmt(st, env, bound))
            elif (isinstance(st, ast.Assign) and len(st.targets) == 1 and isinstance(st.targets[0], ast.Name)
                  and ast.unparse(st.value) == f'len({self.ann}.sequence)'):
                v = st.targets[0].id
                env2 = dict(env)
                env2[v] = 'int'
                rest = self.stmts(body[i + 1:], env2, bound)
                parts.append(f'(let {v} : Int := Int.ofNat a.seq.length; {rest})')
                break
            else:
                raise Untranslatable('statement ' + ast.unparse(st).split('\n')[0])
            i += 1
        return cat(['(' + p + ')' if (' ++ ' in p and not p.startswith('(')) else p for p in parts])

    def if_stmt(self, st, env, bound):
        t = st.test
        # X.has_f()
        if (isinstance(t, ast.Call) and isinstance(t.func, ast.Attribute) and isinstance(t.func.value, ast.Name)
                and t.func.value.id == self.ann and t.func.attr in HAS and not t.args and not t.keywords):
            return self.bind('ifSome', HAS[t.func.attr], st.body, env, bound)
        # X.f is not None
        if (isinstance(t, ast.Compare) and len(t.ops) == 1 and isinstance(t.ops[0], ast.IsNot)
                and isinstance(t.comparators[0], ast.Constant) and t.comparators[0].value is None):
            f = self.field(t.left, env)
            if f and f[0] == 'ann':
                return self.bind('ifSome', f[1], st.body, env, bound)
        # D and i in D
        if (isinstance(t, ast.BoolOp) and isinstance(t.op, ast.And) and len(t.values) == 2
                and isinstance(t.values[1], ast.Compare) and len(t.values[1].ops) == 1
                and isinstance(t.values[1].ops[0], ast.In)
                and ast.unparse(t.values[0]) == ast.unparse(t.values[1].comparators[0])):
            f = self.field(t.values[0], env)
            if f == ('ann', 'internal'):
                idx = self.int_expr(t.values[1].left, env, bound)
                v = self.fresh('ms')
                b2 = dict(bound)
                key = f'{ast.unparse(t.values[0])}[{ast.unparse(t.values[1].left)}]'
                b2[key] = v
                b2[key + ':type'] = 'mods'
                return f'Pept.SerC.ifInDict a.internal {idx} (fun {v} => {self.stmts(st.body, env, b2)})'
        # A == B on ints
        if isinstance(t, ast.Compare) and len(t.ops) == 1 and isinstance(t.ops[0], ast.Eq):
            a_, b_ = self.int_expr(t.left, env, bound), self.int_expr(t.comparators[0], env, bound)
            return f'Pept.SerC.ifB (decide ({a_} = {b_})) ({self.stmts(st.body, env, bound)})'
        # truthiness of a field
        f = self.field(t, env)
        if f and f[0] == 'ann' and (f[1] in LIST_FIELDS or f[1] == 'charge'):
            return self.bind('ifTruthy', f[1], st.body, env, bound)
        if f and f[0] == 'iv' and f[2] == 'mods':
            v = self.fresh('ms')
            b2 = dict(bound)
            b2[ast.unparse(t)] = v
            b2[ast.unparse(t) + ':type'] = 'mods'
            return f'Pept.SerC.ifTruthy {f[1]}.mods (fun {v} => {self.stmts(st.body, env, b2)})'
        if f and f[0] == 'iv' and f[2] == 'ambiguous':
            return f'Pept.SerC.ifB {f[1]}.ambiguous ({self.stmts(st.body, env, bound)})'
        raise Untranslatable('condition ' + ast.unparse(t))

    def bind(self, comb, fld, body, env, bound):
        v = self.fresh('v')
        b2 = dict(bound)
        pykeys = [k for k, x in FIELDS.items() if x == fld]
        for k in pykeys:
            key = f'{self.ann}.{k}'
            b2[key] = v
            b2[key + ':type'] = 'int' if fld == 'charge' else ('intervals' if fld == 'intervals' else 'mods')
        if fld == 'internal':
            raise Untranslatable('has_internal_mods outside the lookup pattern')
        if fld == 'charge' and comb != 'ifSome':
            comb = 'ifNonzero'                                       # `if annotation.charge:` drops charge 0
        return f'Pept.SerC.{comb} a.{fld} (fun {v} => {self.stmts(body, env, b2)})'

    def for_stmt(self, st, env, bound):
        # for i, aa in enumerate(annotation.sequence)
        if (isinstance(st.target, ast.Tuple) and len(st.target.elts) == 2 and all(isinstance(x, ast.Name) for x in st.target.elts)
                and ast.unparse(st.iter) == f'enumerate({self.ann}.sequence)'):
            i, aa = (x.id for x in st.target.elts)
            env2 = dict(env)
            env2[i] = 'int'
            env2[aa] = 'char'
            return f'Pept.SerC.forEnum a.seq 0 (fun {i} {aa} => {self.stmts(st.body, env2, bound)})'
        if isinstance(st.target, ast.Name):
            lst, typ = self.list_expr(st.iter, env, bound)
            env2 = dict(env)
            env2[st.target.id] = 'mod' if typ == 'mods' else 'interval'
            return f'Pept.SerC.forEach {lst} (fun {st.target.id} => {self.stmts(st.body, env2, bound)})'
        raise Untranslatable('loop ' + ast.unparse(st).split('\n')[0])


def body_without_doc(fn):
    b = list(fn.body)
    if b and isinstance(b[0], ast.Expr) and isinstance(b[0].value, ast.Constant) and isinstance(b[0].value.value, str):
        b = b[1:]
    return b


def tr_comps_function(fn, mod_fn):
    args = [a.arg for a in fn.args.args]
    if args != ['annotation', 'include_plus']:
        raise Untranslatable('signature ' + str(args))
    b = body_without_doc(fn)
    if len(b) < 2 or ast.unparse(b[0]) != 'comps = []' or ast.unparse(b[-1]) != "return ''.join(comps)":
        raise Untranslatable('not of the form comps = [] ... return "".join(comps)')
    return Block(mod_fn).stmts(b[1:-1], {}, {})


def tr_mod_serialize(fn):
    args = [a.arg for a in fn.args.args]
    if args != ['self', 'brackets', 'include_plus']:
        raise Untranslatable('signature ' + str(args))
    b = body_without_doc(fn)
    if len(b) != 2 or not isinstance(b[0], ast.If) or not isinstance(b[1], ast.Return):
        raise Untranslatable('shape of Mod.serialize')

    def val_expr(e):
        u = ast.unparse(e)
        if u == 'str(self.val)':
            return 'm.val.text'
        if isinstance(e, ast.JoinedStr):
            parts = []
            for v in e.values:
                if isinstance(v, ast.Constant):
                    parts.append(chars(v.value))
                elif isinstance(v, ast.FormattedValue) and v.conversion == -1 and v.format_spec is None:
                    k = ast.unparse(v.value)
                    m = {'self.val': 'm.val.text', 'self.mult': 'Pept.intText m.mult', 'brackets[0]': '[o]', 'brackets[1]': '[c]',
                         'val_str': 'valStr'}.get(k)
                    if m is None:
                        raise Untranslatable('f-string part ' + k)
                    parts.append(m)
                else:
                    raise Untranslatable('f-string with conversion / format spec')
            return cat(parts)
        if isinstance(e, ast.IfExp):
            c = ast.unparse(e.test)
            if c == 'isinstance(self.val, (int, float)) and self.val > 0':
                return f'(if m.val.positive = true then {val_expr(e.body)} else {val_expr(e.orelse)})'
            mm = re.fullmatch(r'self\.mult (>|>=|!=|==) (\d+)', c)
            if mm:
                op = {'>': '>', '>=': '≥', '!=': '≠', '==': '='}[mm.group(1)]
                return f'(if m.mult {op} {mm.group(2)} then {val_expr(e.body)} else {val_expr(e.orelse)})'
            raise Untranslatable('condition ' + c)
        raise Untranslatable('expression ' + u)

    def assign(stmts):
        if len(stmts) != 1 or not isinstance(stmts[0], ast.Assign) or ast.unparse(stmts[0].targets[0]) != 'val_str':
            raise Untranslatable('val_str assignment')
        return val_expr(stmts[0].value)

    if ast.unparse(b[0].test) != 'include_plus is True':
        raise Untranslatable('test ' + ast.unparse(b[0].test))
    v = f'(if plus = true then {assign(b[0].body)} else {assign(b[0].orelse)})'
    return f'let valStr : List Char := {v}\n  {val_expr(b[1].value)}'


def tr_serialize_annotation(fn, names):
    b = body_without_doc(fn)
    if len(b) != 1 or not isinstance(b[0], ast.Return):
        raise Untranslatable('shape')
    e = b[0].value
    parts = []

    def flat(x):
        if isinstance(x, ast.BinOp) and isinstance(x.op, ast.Add):
            flat(x.left)
            parts.append(x.right)
        else:
            parts.append(x)
    flat(e)
    out = None
    for p in parts:
        if not (isinstance(p, ast.Call) and isinstance(p.func, ast.Name) and [ast.unparse(a) for a in p.args] == ['annotation', 'include_plus']
                and p.func.id.lstrip('_') in names):
            raise Untranslatable('operand ' + ast.unparse(p))
        t = f'{names[p.func.id.lstrip("_")]} plus a'
        out = t if out is None else f'{out} ++ {t}'
    return out


MULTI_TEMPLATE = """seq = ''
for i, annotation in enumerate(self.annotations):
    seq += annotation.serialize(include_plus=include_plus)
    if i != len(self.annotations) - 1:
        connection = self.connections[i]
        if connection is True:
            seq += 'XJ'
        else:
            seq += 'PJ'
return seq"""


def tr_multi(fn, ser_name):
    b = body_without_doc(fn)
    consts = []

    class Grab(ast.NodeTransformer):
        def visit_AugAssign(self, node):
            if isinstance(node.value, ast.Constant) and isinstance(node.value.value, str):
                consts.append(node.value.value)
                node.value = ast.Constant('XJ' if len(consts) == 1 else 'PJ')
            return node
    mod = ast.Module(body=[Grab().visit(s) for s in b], type_ignores=[])
    if len(consts) != 2 or ast.unparse(mod) != MULTI_TEMPLATE:
        raise Untranslatable('loop shape of MultiProFormaAnnotation.serialize')
    return f'Pept.SerC.joinChains {chars(consts[0])} {chars(consts[1])} ({ser_name} plus)'


def read_sources(repo):
    src = os.path.join(repo, 'src', 'peptacular', 'proforma')
    pp = ast.parse(open(os.path.join(src, 'proforma_parser.py')).read())
    pd = ast.parse(open(os.path.join(src, 'proforma_dataclasses.py')).read())
    fns = {}
    for node in pd.body:
        if isinstance(node, ast.ClassDef) and node.name == 'Mod':
            for f in node.body:
                if isinstance(f, ast.FunctionDef) and f.name == 'serialize':
                    fns['mod_serialize'] = f
    for node in pp.body:
        if isinstance(node, ast.FunctionDef) and node.name.startswith('_serialize_annotation'):
            fns[node.name.lstrip('_')] = node
        if isinstance(node, ast.ClassDef) and node.name == 'MultiProFormaAnnotation':
            for f in node.body:
                if isinstance(f, ast.FunctionDef) and f.name == 'serialize':
                    fns['multi_serialize'] = f
    return fns


SIG = {'mod_serialize': '(o c : Char) (plus : Bool) (m : Pept.Mod) : List Char',
       'serialize_annotation_start': '(plus : Pept.Plus) (a : Pept.Annotation) : List Char',
       'serialize_annotation_middle': '(plus : Pept.Plus) (a : Pept.Annotation) : List Char',
       'serialize_annotation_end': '(plus : Pept.Plus) (a : Pept.Annotation) : List Char',
       'serialize_annotation': '(plus : Pept.Plus) (a : Pept.Annotation) : List Char',
       'multi_serialize': '(plus : Pept.Plus) : List Pept.Annotation → List (Option Bool) → Except Pept.Err (List Char)'}


def emit(fns, skip):
    """-> (lean text, {untranslated: reason}, [translated names])"""
    unt = dict(skip)
    defs = {}
    for name in TARGETS:
        if name in unt:
            continue
        if name not in fns:
            unt[name] = 'function not found in the source'
            continue
        try:
            if name == 'mod_serialize':
                defs[name] = tr_mod_serialize(fns[name])
            elif name in ('serialize_annotation_start', 'serialize_annotation_middle', 'serialize_annotation_end'):
                mod_fn = 'mod_serialize' if 'mod_serialize' in defs else 'Pept.Mod.serialize'
                defs[name] = tr_comps_function(fns[name], mod_fn)
            elif name == 'serialize_annotation':
                names = {n: (n if n in defs else HAND[n]) for n in ('serialize_annotation_start', 'serialize_annotation_middle',
                                                                    'serialize_annotation_end')}
                defs[name] = tr_serialize_annotation(fns[name], names)
            else:
                ser = 'serialize_annotation' if 'serialize_annotation' in defs else 'Pept.serialize'
                defs[name] = tr_multi(fns[name], ser)
        except Untranslatable as e:
            unt[name] = str(e)[:200]
        except Exception as e:  # noqa
            unt[name] = f'translator error {type(e).__name__}: {e}'[:200]
    out = ['import PeptVerif.Model.SerializeC', '/-!',
           'GENERATED by harness/translate_serializer.py from the CURRENT source of /repo (proforma_dataclasses.Mod.serialize,',
           'proforma_parser._serialize_annotation_*, MultiProFormaAnnotation.serialize). Do not edit: rewritten when the source changes.',
           '-/', 'namespace GenSer', '']
    for name in TARGETS:
        if name in defs:
            out.append(f'def {name} {SIG[name]} :=')
            out.append('  ' + defs[name])
            out.append('')
        else:
            out.append(f'-- untranslated: {name}: {unt.get(name)}')
            out.append('')
    out.append('end GenSer')
    return '\n'.join(out) + '\n', unt, [n for n in TARGETS if n in defs]


def assemble_props(done, unt):
    tpl = open(os.path.join(core.VERIF, 'harness', 'c01gen_template.lean')).read()
    head, *blocks = re.split(r'^-- BLOCK (\S+)(?: requires (.*))?$', tpl, flags=re.M)
    out = [head.rstrip('\n') + '\n']
    it = iter(blocks)
    for name, req, body in zip(it, it, it):
        needs = [name] if name in TARGETS else []
        needs += (req or '').split()
        missing = [n for n in needs if n not in done]
        if missing:
            why = '; '.join(f'{n}: {unt.get(n, "not translated")}' for n in missing)
            out.append(f'\n-- theorem block `{name}` omitted on this run (untranslated: {why})\n')
        else:
            out.append('\n' + body.strip('\n') + '\n')
    out.append('\nend GenSer\n')
    return ''.join(out)


def write_if_changed(path, text):
    if os.path.exists(path) and open(path).read() == text:
        return False
    os.makedirs(os.path.dirname(path), exist_ok=True)
    with open(path, 'w') as f:
        f.write(text)
    return True


def translate(chk=None, repo=None, check_compiles=True):
    """-> (translated names, {untranslated: reason}); writes the two Lean files only when they change"""
    repo = repo or core.REPO
    gpath = os.path.join(core.LEAN, 'PeptVerif', 'Generated', 'SerializerPy.lean')
    ppath = os.path.join(core.LEAN, 'PeptVerif', 'Props', 'C01Gen.lean')
    try:
        fns = read_sources(repo)
        skip = {}
    except Exception as e:  # noqa
        fns = {}
        skip = {n: f'source unreadable: {type(e).__name__}' for n in TARGETS}
    text, unt, done = emit(fns, skip)
    old = open(gpath).read() if os.path.exists(gpath) else None
    if check_compiles and text != old:
        subprocess.run(['lake', 'build', 'PeptVerif.Model.SerializeC'], cwd=core.LEAN, capture_output=True, text=True)
        for _ in range(len(TARGETS)):
            tmp = os.path.join(core.LEAN, 'PeptVerif', 'Generated', 'SerializerPyCandidate.lean')
            with open(tmp, 'w') as f:
                f.write(text)
            try:
                p = subprocess.run(['lake', 'env', 'lean', os.path.relpath(tmp, core.LEAN)], cwd=core.LEAN, capture_output=True,
                                   text=True, timeout=300)
                outp = p.stdout + p.stderr
            except Exception as e:  # noqa
                outp = 'SerializerPyCandidate.lean:1:0: error ' + str(e)
                p = None
            finally:
                if os.path.exists(tmp):
                    os.remove(tmp)
            errs = [int(m.group(1)) for m in re.finditer(r'SerializerPyCandidate\.lean:(\d+):\d+: error', outp)]
            if p is not None and p.returncode == 0 and not errs:
                break
            lines = text.split('\n')
            bad = set()
            for ln in errs or [len(lines)]:
                for i in range(min(ln, len(lines)) - 1, -1, -1):
                    m = re.match(r'def (\w+) ', lines[i])
                    if m:
                        bad.add(m.group(1))
                        break
            if not bad:
                bad = set(done)
            for b in bad:
                skip[b] = 'generated definition does not elaborate'
            text, unt, done = emit(fns, skip)
    changed = []
    if write_if_changed(gpath, text):
        changed.append('Generated/SerializerPy.lean')
    if write_if_changed(ppath, assemble_props(done, unt)):
        changed.append('Props/C01Gen.lean')
    if chk is not None:
        chk.generated_changed += changed
        chk.notes.append('serializer functions translated mechanically from the source (GenSer): %s' % ', '.join(done))
        if unt:
            chk.notes.append('serializer functions tied by correspondence only on this run: %s'
                             % ', '.join(f'{n} ({r})' for n, r in unt.items()))
        for n in unt:
            chk.generated_changed.append(f'untranslated:{n}')
    return done, unt


if __name__ == '__main__':
    d, u = translate(check_compiles=False)
    print('translated:', d)
    print('untranslated:', u)
