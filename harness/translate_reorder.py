"""
Translator: /repo's CURRENT src/peptacular/proforma/proforma_parser.py (read with `ast`, never imported) ->
lean/PeptVerif/Generated/ReorderPy.lean (namespace GenReorder) for the pure index / interval arithmetic inside
ProFormaAnnotation.slice / reverse / shift / split, and lean/PeptVerif/Props/C11Gen.lean (one equality theorem
`GenReorder.f = Reorder.f` per fragment, assembled from harness/c11gen_template.lean).

Fragments (statement-level; the surrounding deepcopy / dict / list plumbing stays hand-modelled in Model/Reorder.lean):
  sliceKey        body of `for k, mods in self.internal_mods.items()` in slice      (range test + new key)
  sliceInterval   body of `for interval in self.intervals` in slice                 (keep/drop test + clipping)
  sliceDropsNterm / sliceDropsCterm (+ ...Inplace)   the tests guarding `_nterm_mods = None` / `_cterm_mods = None`
  reverseKey, reverseInterval                        the two loop bodies of reverse
  shiftAmount     the two bounds of `self.sequence[a:] + self.sequence[:b]` in shift
  shiftKey, shiftInterval                            the two loop bodies of shift (locals `seq_len`, `effective_shift` inlined as lets)
  splitBounds, splitPopsLabile                       arguments of `self.slice(...)` and the test guarding `pop_labile_mods()` in split

Python subset: integer constants, names, `+ - %`, unary minus, (chained) comparisons, and / or / not, `max` / `min`,
`len(self.sequence)`, `interval.start/.end/.ambiguous/.mods`, `copy.deepcopy(x)` (identity), conditional expressions,
`x is not None` for the typed-int `interval.end` / a local computed from it (always true: `Interval.end` is an `int`),
simple and tuple assignments, `if` / `if-else` / `if …: continue`, and as terminal statements
`new_internal_mods[key] = copy.deepcopy(mods)` and `new_intervals.append(Interval(start=…, end=…, ambiguous=…, mods=…))`.
Anything else makes THAT fragment `untranslated` (no definition, no theorem; the hand model stays tied by correspondence).
The translator never raises.
"""
import ast
import os
import re
import subprocess

from . import core

FRAGMENTS = ['sliceKey', 'sliceInterval', 'sliceDropsNterm', 'sliceDropsCterm', 'sliceDropsNtermInplace',
             'sliceDropsCtermInplace', 'reverseKey', 'reverseInterval', 'shiftAmount', 'shiftKey', 'shiftInterval',
             'splitBounds', 'splitPopsLabile']
RESERVED = {'end', 'at', 'from', 'fun', 'let', 'in', 'do', 'then', 'else', 'if', 'match', 'with', 'have', 'show', 'open',
            'section', 'namespace', 'def', 'theorem', 'by', 'where', 'Type', 'Prop', 'Sort', 'instance', 'class', 'structure',
            'stop', 'start', 'len'}


class Untranslatable(Exception):
    pass


def lname(n):
    return 'py_' + n


def is_self_attr(e, names):
    return isinstance(e, ast.Attribute) and isinstance(e.value, ast.Name) and e.value.id == 'self' and e.attr in names


def is_len_seq(e):
    return (isinstance(e, ast.Call) and isinstance(e.func, ast.Name) and e.func.id == 'len' and len(e.args) == 1 and
            not e.keywords and is_self_attr(e.args[0], ('sequence', '_sequence')))


class Ctx:
    """environment of one fragment: python name -> lean text; names known to be never None"""

    def __init__(self, env, len_name='len_', iv=None, key=None, mods=None):
        self.env = dict(env)
        self.len_name = len_name
        self.iv = iv          # python name of the interval loop variable
        self.key = key        # python name of the key loop variable
        self.mods = mods      # python name of the mods loop variable
        self.notnone = set()  # locals computed from interval.end (never None for a typed Interval)
        self.k = 0

    def fresh(self, base):
        self.k += 1
        return f'{base}_{self.k}'


TRUE = object()


def expr(e, c):
    """-> lean text of an Int / structure-field valued expression"""
    if isinstance(e, ast.Constant):
        if isinstance(e.value, bool) or not isinstance(e.value, int):
            raise Untranslatable('constant')
        return str(e.value)
    if isinstance(e, ast.Name):
        if e.id == c.key:
            return 'p.1'
        if e.id == c.mods:
            return 'p.2'
        if e.id not in c.env:
            raise Untranslatable(f'unknown name {e.id}')
        return c.env[e.id]
    if isinstance(e, ast.UnaryOp) and isinstance(e.op, ast.USub):
        return f'(-{expr(e.operand, c)})'
    if isinstance(e, ast.BinOp) and isinstance(e.op, (ast.Add, ast.Sub, ast.Mod)):
        op = {'Add': '+', 'Sub': '-', 'Mod': '%'}[type(e.op).__name__]
        return f'({expr(e.left, c)} {op} {expr(e.right, c)})'
    if is_len_seq(e):
        return c.len_name
    if isinstance(e, ast.Call) and isinstance(e.func, ast.Name) and e.func.id in ('max', 'min') and len(e.args) == 2 and not e.keywords:
        return f'({e.func.id} {expr(e.args[0], c)} {expr(e.args[1], c)})'
    if (isinstance(e, ast.Call) and isinstance(e.func, ast.Attribute) and e.func.attr == 'deepcopy' and
            isinstance(e.func.value, ast.Name) and e.func.value.id == 'copy' and len(e.args) == 1):
        return expr(e.args[0], c)
    if isinstance(e, ast.Attribute) and isinstance(e.value, ast.Name) and c.iv is not None and e.value.id == c.iv:
        f = {'start': 'start', 'end': 'stop', 'ambiguous': 'ambiguous', 'mods': 'mods'}.get(e.attr)
        if f is None:
            raise Untranslatable(f'interval attribute {e.attr}')
        return f'iv.{f}'
    if isinstance(e, ast.IfExp):
        t = cond(e.test, c)
        if t is TRUE:
            return expr(e.body, c)
        return f'(if {t} then {expr(e.body, c)} else {expr(e.orelse, c)})'
    raise Untranslatable('expression ' + type(e).__name__)


def never_none(e, c):
    if isinstance(e, ast.Attribute) and isinstance(e.value, ast.Name) and c.iv is not None and e.value.id == c.iv and e.attr == 'end':
        return True
    return isinstance(e, ast.Name) and e.id in c.notnone


def cond(e, c):
    """-> lean Prop text, or TRUE for a test that is constantly true in the typed model"""
    if isinstance(e, ast.Compare):
        if (len(e.ops) == 1 and isinstance(e.ops[0], ast.IsNot) and isinstance(e.comparators[0], ast.Constant) and
                e.comparators[0].value is None):
            if never_none(e.left, c):
                return TRUE
            raise Untranslatable('is not None on a value that may be None')
        parts = []
        left = e.left
        for op, right in zip(e.ops, e.comparators):
            sym = {'Lt': '<', 'LtE': '≤', 'Gt': '>', 'GtE': '≥', 'Eq': '=', 'NotEq': '≠'}.get(type(op).__name__)
            if sym is None:
                raise Untranslatable('comparison ' + type(op).__name__)
            parts.append(f'{expr(left, c)} {sym} {expr(right, c)}')
            left = right
        return ' ∧ '.join(parts) if len(parts) > 1 else parts[0]
    if isinstance(e, ast.BoolOp):
        vals = [cond(v, c) for v in e.values]
        if isinstance(e.op, ast.And):
            vals = [v for v in vals if v is not TRUE]
            if not vals:
                return TRUE
            return ' ∧ '.join(f'({v})' if ' ∨ ' in v else v for v in vals)
        if any(v is TRUE for v in vals):
            return TRUE
        return ' ∨ '.join(f'({v})' if ' ∧ ' in v else v for v in vals)
    if isinstance(e, ast.UnaryOp) and isinstance(e.op, ast.Not):
        v = cond(e.operand, c)
        if v is TRUE:
            raise Untranslatable('not of a constant test')
        return f'¬ ({v})'
    if isinstance(e, ast.Name) and e.id in c.env and c.env[e.id].startswith('(truthy:'):
        return c.env[e.id][len('(truthy:'):-1] + ' = true'
    raise Untranslatable('condition ' + type(e).__name__)


def block(stmts, c, optional, terminal, ind='  '):
    """continuation-passing translation of a loop body; `terminal(stmt, c)` -> lean text or None. `ind` is the
    indentation of the first emitted line (all lets of one block start in the same column)"""
    if not stmts:
        if optional:
            return 'none'
        raise Untranslatable('loop body falls through without producing a value')
    st, rest = stmts[0], stmts[1:]
    if isinstance(st, ast.Expr) and isinstance(st.value, ast.Constant) and isinstance(st.value.value, str):
        return block(rest, c, optional, terminal, ind)
    t = terminal(st, c)
    if t is not None:
        if rest:
            raise Untranslatable('statements after the result')
        return f'some {t}' if optional else t
    if isinstance(st, ast.Continue):
        if not optional:
            raise Untranslatable('continue')
        return 'none'
    if isinstance(st, ast.Assign) and len(st.targets) == 1:
        tg = st.targets[0]
        if isinstance(tg, ast.Name):
            c2 = copy_ctx(c)
            if isinstance(st.value, ast.Constant) and st.value.value is None:
                raise Untranslatable('None value')
            v = expr(st.value, c)
            nm = lname(tg.id)
            c2.env[tg.id] = nm
            c2.notnone.add(tg.id)          # `expr` only reads integer-valued expressions
            return f'let {nm} := {v}\n{ind}{block(rest, c2, optional, terminal, ind)}'
        if isinstance(tg, ast.Tuple) and isinstance(st.value, ast.Tuple) and len(tg.elts) == len(st.value.elts) and \
                all(isinstance(x, ast.Name) for x in tg.elts):
            vals = [expr(x, c) for x in st.value.elts]
            c2 = copy_ctx(c)
            tmps = [c2.fresh('swap') for _ in vals]
            lets = ''.join(f'let {t_} := {v}\n{ind}' for t_, v in zip(tmps, vals))
            for x, t_ in zip(tg.elts, tmps):
                nm = lname(x.id)
                lets += f'let {nm} := {t_}\n{ind}'
                c2.env[x.id] = nm
                c2.notnone.add(x.id)
            return lets + block(rest, c2, optional, terminal, ind)
    if isinstance(st, ast.If):
        t = cond(st.test, c)
        if t is TRUE:
            return block(list(st.body) + rest, c, optional, terminal, ind)
        a = block(list(st.body) + ([] if ends_with_continue(st.body) else rest), c, optional, terminal, ind + '  ')
        b = block(list(st.orelse) + rest, c, optional, terminal, ind + '  ')
        return f'if {t} then\n{ind}  {a}\n{ind}else\n{ind}  {b}'
    raise Untranslatable('statement ' + type(st).__name__)


def ends_with_continue(body):
    return bool(body) and isinstance(body[-1], ast.Continue)


def mentions_interval_end(e, c):
    for n in ast.walk(e):
        if never_none(n, c):
            return True
    return False


def copy_ctx(c):
    c2 = Ctx(c.env, c.len_name, c.iv, c.key, c.mods)
    c2.notnone = set(c.notnone)
    c2.k = c.k
    return c2


# ------------------------------------------------------------------------------------------------ terminals

def key_terminal(dict_name):
    def f(st, c):
        if (isinstance(st, ast.Assign) and len(st.targets) == 1 and isinstance(st.targets[0], ast.Subscript) and
                isinstance(st.targets[0].value, ast.Name) and st.targets[0].value.id == dict_name):
            v = expr(st.value, c)
            if v != 'p.2':
                raise Untranslatable('stored value is not the (copied) modification list of the entry')
            return f'({expr(st.targets[0].slice, c)}, p.2)'
        return None
    return f


def interval_terminal(list_name):
    def f(st, c):
        if (isinstance(st, ast.Expr) and isinstance(st.value, ast.Call) and isinstance(st.value.func, ast.Attribute) and
                st.value.func.attr == 'append' and isinstance(st.value.func.value, ast.Name) and
                st.value.func.value.id == list_name and len(st.value.args) == 1):
            call = st.value.args[0]
            if not (isinstance(call, ast.Call) and isinstance(call.func, ast.Name) and call.func.id == 'Interval'):
                raise Untranslatable('appended value is not an Interval(...) call')
            kw = {k.arg: k.value for k in call.keywords}
            if call.args:
                names = ['start', 'end', 'ambiguous', 'mods']
                for nme, a in zip(names, call.args):
                    kw[nme] = a
            if set(kw) != {'start', 'end', 'ambiguous', 'mods'}:
                raise Untranslatable('Interval(...) fields')
            return ('({ start := %s, stop := %s, ambiguous := %s, mods := %s } : Pept.Interval)' %
                    (expr(kw['start'], c), expr(kw['end'], c), expr(kw['ambiguous'], c), expr(kw['mods'], c)))
        return None
    return f


# ------------------------------------------------------------------------------------------------ locating fragments

def method(tree, name):
    for n in tree.body:
        if isinstance(n, ast.ClassDef) and n.name == 'ProFormaAnnotation':
            for m in n.body:
                if isinstance(m, ast.FunctionDef) and m.name == name:
                    return m
    raise Untranslatable(f'method {name} not found')


def int_params(fn, skip=('self', 'inplace', 'swap_terms', 'seed')):
    return [a.arg for a in fn.args.args if a.arg not in skip]


def top_lets(fn, c, before):
    """simple top-level assignments of the method that precede `before` (a node), as let bindings"""
    lets = ''
    for st in fn.body:
        if st is before or (hasattr(st, 'lineno') and st.lineno >= before.lineno):
            break
        if isinstance(st, ast.Assign) and len(st.targets) == 1 and isinstance(st.targets[0], ast.Name):
            try:
                v = expr(st.value, c)
            except Untranslatable:
                continue
            nm = lname(st.targets[0].id)
            lets += f'let {nm} := {v}\n  '
            c.env[st.targets[0].id] = nm
    return lets


def find_loops(fn):
    key_loops, iv_loops = [], []
    for n in ast.walk(fn):
        if isinstance(n, ast.For):
            it = n.iter
            if (isinstance(it, ast.Call) and isinstance(it.func, ast.Attribute) and it.func.attr == 'items' and
                    is_self_attr(it.func.value, ('internal_mods', '_internal_mods'))):
                key_loops.append(n)
            else:
                inner = it.args[0] if (isinstance(it, ast.Call) and isinstance(it.func, ast.Name) and it.func.id == 'reversed'
                                       and len(it.args) == 1) else it
                if is_self_attr(inner, ('intervals', '_intervals')):
                    iv_loops.append(n)
    return key_loops, iv_loops


def params_sig(ps):
    return ' '.join(f'({lname(p)} : Int)' for p in ps) + ' (len_ : Int)'


def base_ctx(ps):
    return Ctx({p: lname(p) for p in ps})


def assigned_name(loop, kind):
    """name of the dict / list the loop fills"""
    for n in ast.walk(loop):
        if kind == 'dict' and isinstance(n, ast.Assign) and isinstance(n.targets[0], ast.Subscript) and \
                isinstance(n.targets[0].value, ast.Name):
            return n.targets[0].value.id
        if kind == 'list' and isinstance(n, ast.Call) and isinstance(n.func, ast.Attribute) and n.func.attr == 'append' and \
                isinstance(n.func.value, ast.Name):
            return n.func.value.id
    raise Untranslatable('loop does not fill a dict / list')


def has_filter(stmts):
    """the body can finish without producing a value"""
    for st in stmts:
        for n in ast.walk(st):
            if isinstance(n, ast.Continue):
                return True
    if stmts and isinstance(stmts[-1], ast.If) and not stmts[-1].orelse:
        return True
    return False


def frag_key(tree, meth, name, want_optional):
    fn = method(tree, meth)
    ps = int_params(fn)
    loops, _ = find_loops(fn)
    if len(loops) != 1:
        raise Untranslatable(f'{len(loops)} loops over internal_mods.items()')
    lp = loops[0]
    if not (isinstance(lp.target, ast.Tuple) and len(lp.target.elts) == 2 and all(isinstance(x, ast.Name) for x in lp.target.elts)):
        raise Untranslatable('loop target')
    c = base_ctx(ps)
    lets = top_lets(fn, c, lp)
    c.key, c.mods = lp.target.elts[0].id, lp.target.elts[1].id
    opt = has_filter(lp.body)
    if opt != want_optional:
        raise Untranslatable('filter shape differs from the model (every entry kept vs range filter)')
    body = block(list(lp.body), c, opt, key_terminal(assigned_name(lp, 'dict')))
    ty = 'Option (Int × List Pept.Mod)' if opt else 'Int × List Pept.Mod'
    return f'def {name} {params_sig(ps)} (p : Int × List Pept.Mod) : {ty} :=\n  {lets}{body}\n', ps


def frag_interval(tree, meth, name, want_optional):
    fn = method(tree, meth)
    ps = int_params(fn)
    _, loops = find_loops(fn)
    if len(loops) != 1:
        raise Untranslatable(f'{len(loops)} loops over intervals')
    lp = loops[0]
    if not isinstance(lp.target, ast.Name):
        raise Untranslatable('loop target')
    c = base_ctx(ps)
    lets = top_lets(fn, c, lp)
    c.iv = lp.target.id
    opt = has_filter(lp.body)
    if opt != want_optional:
        raise Untranslatable('filter shape differs from the model')
    body = block(list(lp.body), c, opt, interval_terminal(assigned_name(lp, 'list')))
    ty = 'Option Pept.Interval' if opt else 'Pept.Interval'
    return f'def {name} {params_sig(ps)} (iv : Pept.Interval) : {ty} :=\n  {lets}{body}\n', ps


def term_tests(tree):
    """the tests guarding `X._nterm_mods = None` / `X._cterm_mods = None` in slice: {fragment name: lean def}"""
    fn = method(tree, 'slice')
    ps = int_params(fn)
    out = {}
    errs = {}

    def visit(stmts, replaced, inplace):
        for st in stmts:
            if isinstance(st, ast.Assign) and len(st.targets) == 1 and is_self_attr(st.targets[0], ('_sequence', 'sequence')):
                replaced = True
            if isinstance(st, ast.If):
                tgt = None
                if len(st.body) == 1 and isinstance(st.body[0], ast.Assign) and len(st.body[0].targets) == 1:
                    t0 = st.body[0].targets[0]
                    v0 = st.body[0].value
                    if isinstance(t0, ast.Attribute) and t0.attr in ('_nterm_mods', '_cterm_mods') and \
                            isinstance(v0, ast.Constant) and v0.value is None and isinstance(t0.value, ast.Name):
                        tgt = (t0.attr, t0.value.id == 'self')
                if tgt is not None and not st.orelse:
                    nm = ('sliceDropsNterm' if tgt[0] == '_nterm_mods' else 'sliceDropsCterm') + ('Inplace' if tgt[1] else '')
                    try:
                        c = base_ctx(ps)
                        c.len_name = 'newLen_' if (replaced and tgt[1]) else 'len_'
                        t = cond(st.test, c)
                        if t is TRUE:
                            raise Untranslatable('constant test')
                        if nm in out:
                            raise Untranslatable('guard appears twice')
                        out[nm] = f'def {nm} {params_sig(ps)} (newLen_ : Int) : Bool :=\n  decide ({t})\n'
                    except Untranslatable as e:
                        errs[nm] = str(e)
                else:
                    is_inpl = isinstance(st.test, ast.Compare) and isinstance(st.test.left, ast.Name) and st.test.left.id == 'inplace' \
                        or (isinstance(st.test, ast.Name) and st.test.id == 'inplace')
                    visit(st.body, replaced, inplace or is_inpl)
                    visit(st.orelse, replaced, inplace)
    visit(fn.body, False, False)
    return out, errs, ps


def frag_shift_amount(tree):
    fn = method(tree, 'shift')
    ps = int_params(fn)
    for st in fn.body:
        if isinstance(st, ast.Assign) and isinstance(st.value, ast.BinOp) and isinstance(st.value.op, ast.Add):
            l, r = st.value.left, st.value.right
            if (isinstance(l, ast.Subscript) and isinstance(r, ast.Subscript) and is_self_attr(l.value, ('sequence', '_sequence')) and
                    is_self_attr(r.value, ('sequence', '_sequence')) and isinstance(l.slice, ast.Slice) and isinstance(r.slice, ast.Slice)):
                if l.slice.upper is not None or l.slice.step is not None or l.slice.lower is None or \
                        r.slice.lower is not None or r.slice.step is not None or r.slice.upper is None:
                    raise Untranslatable('rotation slices are not seq[a:] + seq[:b]')
                c = base_ctx(ps)
                lets = top_lets(fn, c, st)
                # locals assigned after this statement are not visible to it in Python either
                return (f'def shiftAmount {params_sig(ps)} : Int × Int :=\n  {lets}({expr(l.slice.lower, c)}, {expr(r.slice.upper, c)})\n', ps)
    raise Untranslatable('rotation `self.sequence[a:] + self.sequence[:b]` not found')


def frag_split(tree):
    fn = method(tree, 'split')
    loops = [n for n in fn.body if isinstance(n, ast.For)]
    if len(loops) != 1:
        raise Untranslatable('split loop')
    lp = loops[0]
    if not (isinstance(lp.iter, ast.Call) and isinstance(lp.iter.func, ast.Name) and lp.iter.func.id == 'enumerate' and
            isinstance(lp.target, ast.Tuple) and isinstance(lp.target.elts[0], ast.Name)):
        raise Untranslatable('split loop is not `for i, _ in enumerate(self.sequence)`')
    ivar = lp.target.elts[0].id
    labile = None
    for st in fn.body:
        if isinstance(st, ast.Assign) and isinstance(st.targets[0], ast.Name) and is_self_attr(st.value, ('labile_mods', '_labile_mods')):
            labile = st.targets[0].id
    c = Ctx({ivar: 'i'})
    if labile:
        c.env[labile] = '(truthy:labileTruthy)'
    bounds = None
    pops = None
    svar = None
    for st in lp.body:
        if isinstance(st, ast.Assign) and isinstance(st.value, ast.Call) and isinstance(st.value.func, ast.Attribute) and \
                st.value.func.attr == 'slice' and isinstance(st.value.func.value, ast.Name) and st.value.func.value.id == 'self':
            if len(st.value.args) != 2 or st.value.keywords:
                raise Untranslatable('slice call arguments')
            bounds = f'({expr(st.value.args[0], c)}, {expr(st.value.args[1], c)})'
            svar = st.targets[0].id
        elif isinstance(st, ast.If) and not st.orelse and len(st.body) == 1 and isinstance(st.body[0], ast.Expr) and \
                isinstance(st.body[0].value, ast.Call) and isinstance(st.body[0].value.func, ast.Attribute) and \
                st.body[0].value.func.attr == 'pop_labile_mods' and isinstance(st.body[0].value.func.value, ast.Name) and \
                st.body[0].value.func.value.id == svar:
            t = cond(st.test, c)
            if t is TRUE:
                raise Untranslatable('constant test')
            pops = t
        elif isinstance(st, ast.Expr) and isinstance(st.value, ast.Yield):
            if not (isinstance(st.value.value, ast.Name) and st.value.value.id == svar):
                raise Untranslatable('yielded value')
        else:
            raise Untranslatable('split loop body statement ' + type(st).__name__)
    out = {}
    if bounds is None:
        raise Untranslatable('self.slice(...) call not found')
    out['splitBounds'] = f'def splitBounds (i : Int) : Int × Int :=\n  {bounds}\n'
    if pops is None:
        raise Untranslatable('pop_labile_mods guard not found')
    out['splitPopsLabile'] = f'def splitPopsLabile (i : Int) (labileTruthy : Bool) : Bool :=\n  decide ({pops})\n'
    return out


# ------------------------------------------------------------------------------------------------ emit

HEADER = '''import PeptVerif.Model.Reorder
/-! GENERATED by harness/translate_reorder.py from src/peptacular/proforma/proforma_parser.py — do not edit.
Each definition is the literal reading, in the tiny subset the translator accepts, of one index / interval arithmetic
fragment of ProFormaAnnotation.slice / reverse / shift / split (`py_x` = the Python local or parameter `x`, `len_` =
`len(self.sequence)`, `p` = one `(key, mods)` entry of `internal_mods`, `iv` = one interval);
`Props/C11Gen.lean` proves it equal to the hand-written model. -/
set_option linter.unusedVariables false
namespace GenReorder

'''


def read_tree(repo):
    src = open(os.path.join(repo, 'src', 'peptacular', 'proforma', 'proforma_parser.py')).read()
    return ast.parse(src)


def emit(tree, skip):
    """-> (lean text, {name: reason}, [translated names], {name: param list})"""
    unt = dict(skip)
    defs = {}
    params = {}

    def attempt(names, fn):
        try:
            r = fn()
        except Untranslatable as e:
            for n in names:
                unt.setdefault(n, str(e))
            return
        except Exception as e:  # noqa - the translator must never crash
            for n in names:
                unt.setdefault(n, f'{type(e).__name__}: {e}')
            return
        for n, (d, ps) in r.items():
            if n not in unt:
                defs[n] = d
                params[n] = ps

    if tree is not None:
        attempt(['sliceKey'], lambda: {'sliceKey': frag_key(tree, 'slice', 'sliceKey', True)})
        attempt(['sliceInterval'], lambda: {'sliceInterval': frag_interval(tree, 'slice', 'sliceInterval', True)})

        def terms():
            out, errs, ps = term_tests(tree)
            for n, e in errs.items():
                unt.setdefault(n, e)
            return {n: (d, ps) for n, d in out.items()}
        attempt(['sliceDropsNterm', 'sliceDropsCterm', 'sliceDropsNtermInplace', 'sliceDropsCtermInplace'], terms)
        for n in ('sliceDropsNterm', 'sliceDropsCterm', 'sliceDropsNtermInplace', 'sliceDropsCtermInplace'):
            if n not in defs:
                unt.setdefault(n, 'guard not found')
        attempt(['reverseKey'], lambda: {'reverseKey': frag_key(tree, 'reverse', 'reverseKey', False)})
        attempt(['reverseInterval'], lambda: {'reverseInterval': frag_interval(tree, 'reverse', 'reverseInterval', False)})
        attempt(['shiftAmount'], lambda: {'shiftAmount': frag_shift_amount(tree)})
        attempt(['shiftKey'], lambda: {'shiftKey': frag_key(tree, 'shift', 'shiftKey', False)})
        attempt(['shiftInterval'], lambda: {'shiftInterval': frag_interval(tree, 'shift', 'shiftInterval', False)})
        attempt(['splitBounds', 'splitPopsLabile'], lambda: {n: (d, ['i']) for n, d in frag_split(tree).items()})
    done = [n for n in FRAGMENTS if n in defs and n not in unt]
    for n in FRAGMENTS:
        if n not in done:
            unt.setdefault(n, 'not found')
    text = HEADER + '\n'.join(defs[n] for n in done) + '\nend GenReorder\n'
    return text, {n: unt[n] for n in FRAGMENTS if n in unt and n not in done}, done, params


EXPECTED_PARAMS = {'sliceKey': ['start', 'stop'], 'sliceInterval': ['start', 'stop'], 'sliceDropsNterm': ['start', 'stop'],
                   'sliceDropsCterm': ['start', 'stop'], 'sliceDropsNtermInplace': ['start', 'stop'],
                   'sliceDropsCtermInplace': ['start', 'stop'], 'reverseKey': [], 'reverseInterval': [], 'shiftAmount': ['n'],
                   'shiftKey': ['n'], 'shiftInterval': ['n'], 'splitBounds': ['i'], 'splitPopsLabile': ['i']}


def assemble_props(done, unt):
    tpl = open(os.path.join(os.path.dirname(__file__), 'c11gen_template.lean')).read()
    head = tpl[:tpl.index('-- BEGIN ')]
    parts = [head]
    for m in re.finditer(r'-- BEGIN ([\w,]+)\n(.*?)-- END \1\n', tpl, re.S):
        need = m.group(1).split(',')
        if all(n in done for n in need):
            parts.append(m.group(2))
        else:
            miss = [n for n in need if n not in done]
            parts.append('-- %s: not translated (%s); the hand model is tied by correspondence only\n\n' %
                         (', '.join(miss), '; '.join(f'{n}: {unt.get(n, "?")}' for n in miss)))
    parts.append('end GenReorder\n')
    return ''.join(parts)


def write_if_changed(path, body):
    old = open(path).read() if os.path.exists(path) else None
    if old != body:
        os.makedirs(os.path.dirname(path), exist_ok=True)
        with open(path, 'w') as f:
            f.write(body)
        return True
    return False


def translate(chk=None, repo=None, check_compiles=True):
    """-> (translated names, {untranslated name: reason}); writes the two Lean files only when they change"""
    repo = repo or core.REPO
    gpath = os.path.join(core.LEAN, 'PeptVerif', 'Generated', 'ReorderPy.lean')
    ppath = os.path.join(core.LEAN, 'PeptVerif', 'Props', 'C11Gen.lean')
    skip = {}
    try:
        tree = read_tree(repo)
    except Exception as e:  # noqa
        tree = None
        skip = {n: f'proforma_parser.py unreadable: {type(e).__name__}' for n in FRAGMENTS}
    text, unt, done, params = emit(tree, skip)
    # a fragment whose parameter list is not the one the theorem template expects is untranslated (signature change)
    for n in list(done):
        if params.get(n) != EXPECTED_PARAMS[n]:
            skip[n] = f'parameters {params.get(n)} instead of {EXPECTED_PARAMS[n]}'
    if any(n in skip for n in done):
        text, unt, done, params = emit(tree, skip)
    old = open(gpath).read() if os.path.exists(gpath) else None
    if check_compiles and text != old:
        subprocess.run(['lake', 'build', 'PeptVerif.Model.Reorder'], cwd=core.LEAN, capture_output=True, text=True)
        for _ in range(len(FRAGMENTS)):
            tmp = os.path.join(core.LEAN, 'PeptVerif', 'Generated', 'ReorderPyCandidate.lean')
            with open(tmp, 'w') as f:
                f.write(text)
            try:
                p = subprocess.run(['lake', 'env', 'lean', os.path.relpath(tmp, core.LEAN)], cwd=core.LEAN, capture_output=True,
                                   text=True, timeout=300)
                outp = p.stdout + p.stderr
            except Exception as e:  # noqa
                outp = 'ReorderPyCandidate.lean:1:0: error ' + str(e)
                p = None
            finally:
                if os.path.exists(tmp):
                    os.remove(tmp)
            errs = [int(m.group(1)) for m in re.finditer(r'ReorderPyCandidate\.lean:(\d+):\d+: error', outp)]
            if p is not None and p.returncode == 0 and not errs:
                break
            lines = text.split('\n')
            bad = set()
            for ln in errs or [len(lines)]:
                for i in range(min(ln, len(lines)) - 1, -1, -1):
                    m = re.match(r'def (\w+) ', lines[i])
                    if m:
                        bad.add(m.group(1))
                        break
            if not bad:
                bad = set(done)
            for b in bad:
                skip[b] = 'generated definition does not elaborate'
            text, unt, done, params = emit(tree, skip)
    changed = []
    if write_if_changed(gpath, text):
        changed.append('Generated/ReorderPy.lean')
    if write_if_changed(ppath, assemble_props(done, unt)):
        changed.append('Props/C11Gen.lean')
    if chk is not None:
        chk.generated_changed += changed
        chk.notes.append('proforma_parser.py fragments translated mechanically (GenReorder): %s' % ', '.join(done))
        if unt:
            chk.notes.append('fragments not translated (hand model tied by correspondence only): %s' %
                             '; '.join(f'{n} ({r})' for n, r in unt.items()))
        for n in unt:
            chk.generated_changed.append(f'untranslated:{n}')
    return done, unt


if __name__ == '__main__':
    d, u = translate()
    print('translated:', d)
    print('untranslated:', u)
