"""
C08 dynamic machinery: worlds of shared caller-owned objects, call specs for the public API surface,
id-free deep dumps, result mutation, global-state stamps.

A *world* is a dict name -> caller-owned object (annotation, dicts, lists ...).  A *spec* is one way of calling one
member of the API surface with arguments taken from the world.  Everything the property talks about is observable
as a difference between deep dumps of the world / of results.
"""
import copy
import dataclasses
import hashlib
import inspect
import random as _random
import types
import warnings
from collections import Counter

from . import annot

warnings.filterwarnings('ignore')


# ------------------------------------------------------------------------------------------------ API surface

def _kinds_of(param):
    a = str(param.annotation)
    k = ''
    if 'ProFormaAnnotation' in a:
        k += 'A'
    if 'Dict' in a or 'dict' in a or 'ChemComposition' in a or 'ModDict' in a or 'Counter' in a:
        k += 'D'
    if 'List' in a or 'list' in a or 'Sequence' in a or 'Iterable' in a:
        k += 'L'
    return k


def api_surface(all_public=False):
    """[(api_name, [(param, kinds)])] for public functions taking an annotation/dict/list and all public annotation methods
    and setters.  api_name: 'mass', 'ProFormaAnnotation.slice', 'ProFormaAnnotation.labile_mods.setter'.
    all_public=True: every public function of the package (the str-accepting ones too: held to the static obligations)"""
    import peptacular as pt
    from peptacular.proforma.proforma_parser import ProFormaAnnotation
    out = []
    for name in sorted(dir(pt)):
        if name.startswith('_'):
            continue
        o = getattr(pt, name)
        if inspect.isclass(o) or inspect.ismodule(o) or not callable(o):
            continue
        try:
            base = inspect.unwrap(o)         # a decorated / memoised public function is still a public function
        except Exception:
            base = o
        if not (getattr(base, '__module__', None) or getattr(o, '__module__', None) or '').startswith('peptacular'):
            continue
        ps = []
        try:
            for p in inspect.signature(o).parameters.values():
                ps.append((p.name, _kinds_of(p)))
        except (TypeError, ValueError):
            ps = [('?', '')]
        if all_public or any(k for _, k in ps):
            out.append((name, ps))
    for name in sorted(dir(ProFormaAnnotation)):
        if name.startswith('_'):
            continue
        o = inspect.getattr_static(ProFormaAnnotation, name)
        if isinstance(o, property):
            if o.fset is not None:
                ps = [('self', 'A')] + [(p.name, _kinds_of(p)) for p in list(inspect.signature(o.fset).parameters.values())[1:]]
                out.append((f'ProFormaAnnotation.{name}.setter', ps))
        elif inspect.isfunction(o):
            ps = []
            for i, p in enumerate(inspect.signature(o).parameters.values()):
                ps.append((p.name, 'A' if i == 0 else _kinds_of(p)))
            out.append((f'ProFormaAnnotation.{name}', ps))
    Fragmenter = getattr(pt, 'Fragmenter', None)
    if all_public and Fragmenter is not None:
        for name in sorted(vars(Fragmenter)):
            o = vars(Fragmenter)[name]
            if not name.startswith('_') and inspect.isfunction(o):
                ps = [(p.name, 'A' if i == 0 else _kinds_of(p)) for i, p in enumerate(inspect.signature(o).parameters.values())]
                out.append((f'Fragmenter.{name}', ps))
    return out


def is_declared_editor(api, variant=''):
    """the property's own definition of an editor: inplace=True, add_*/pop_*/setters (+ clear_*, which edits by name)"""
    base = api.split('.')[1] if api.startswith('ProFormaAnnotation.') else api
    if api.endswith('.setter'):
        return True
    if base.startswith(('add_', 'pop_', 'clear_')):
        return True
    if 'inplace' in variant:
        return True
    return False


# API members deliberately not exercised, with the reason (mirrored in Lean as `declaredOutside`)
DECLARED_OUTSIDE = {
    'compliance_randomizer': 'randomizer.py: random test-data generator',
    'random_sequence': 'randomizer.py: random test-data generator',
    'random_mod': 'randomizer.py: random test-data generator',
    'random_interval': 'randomizer.py: random test-data generator',
    'reload_all_databases': 'mod_db_setup: explicit editor of the modification databases',
    'reload_all_databases_from_online': 'mod_db_setup: explicit editor of the modification databases',
    'reset_all_databases': 'mod_db_setup: explicit editor of the modification databases',
    'cross_linking_randomizer': 'randomizer.py: random test-data generator, edits the annotation it is given by contract',
    'glycan_randomizer': 'randomizer.py: random test-data generator, edits the annotation it is given by contract',
    'spectrum_randomizer': 'randomizer.py: random test-data generator, edits the annotation it is given by contract',
    'top_down_randomizer': 'randomizer.py: random test-data generator, edits the annotation it is given by contract',
    'random_intervals': 'randomizer.py: random test-data generator (takes a str)',
    'count_invalid_entries': 'mod_db_setup: import-time helper over ModEntry lists',
    'get_isotopic_atomic_masses': 'element_setup: import-time table builder',
    'map_atomic_number_to_comp': 'element_setup: import-time table builder',
    'map_atomic_number_to_comp_neutron_offset': 'element_setup: import-time table builder',
    'map_atomic_number_to_symbol': 'element_setup: import-time table builder',
    'map_atomic_symbol_to_average_mass': 'element_setup: import-time table builder',
    'map_hill_order': 'element_setup: import-time table builder',
}


# ------------------------------------------------------------------------------------------------ deep dump

def _is_annotation(x):
    return type(x).__name__ == 'ProFormaAnnotation'


RECORDS = ('Mod', 'Interval', 'Fragment', 'FragmentMatch', 'EnzymeConfig', 'MultiProFormaAnnotation', 'ModEntry')


def deep_dump(x, depth=0):
    """id-free canonical text of any value the API takes or returns (dict order IS part of it: it is observable)"""
    if depth > 12:
        return '<deep>'
    if x is None or isinstance(x, (bool, int, str)):
        return repr(x)
    if isinstance(x, float):
        return 'f' + repr(x)
    tn = type(x).__name__
    if tn == 'Mod':
        return 'Mod(' + deep_dump(x.val) + ',' + repr(x.mult) + ')'
    if _is_annotation(x):
        # generic field dump (robust to ill-typed field contents an editor may have stored)
        return 'A<' + '|'.join(deep_dump(getattr(x, f.name, None), depth + 1) for f in dataclasses.fields(x)) + '>'
    if isinstance(x, Counter):
        return 'Counter{' + ','.join(deep_dump(k, depth + 1) + ':' + deep_dump(v, depth + 1) for k, v in x.items()) + '}'
    if isinstance(x, dict):
        return '{' + ','.join(deep_dump(k, depth + 1) + ':' + deep_dump(v, depth + 1) for k, v in x.items()) + '}'
    if isinstance(x, list):
        return '[' + ','.join(deep_dump(v, depth + 1) for v in x) + ']'
    if isinstance(x, tuple):
        return '(' + ','.join(deep_dump(v, depth + 1) for v in x) + ')'
    if isinstance(x, (set, frozenset)):
        return 'set(' + ','.join(sorted(deep_dump(v, depth + 1) for v in x)) + ')'
    if dataclasses.is_dataclass(x) and not isinstance(x, type):
        return tn + '(' + ','.join(f.name + '=' + deep_dump(getattr(x, f.name, None), depth + 1)
                                   for f in dataclasses.fields(x)) + ')'
    if isinstance(x, BaseException):
        return 'EXC:' + type(x).__name__
    if hasattr(x, '__dict__'):
        return tn + '<' + ','.join(k + '=' + deep_dump(v, depth + 1) for k, v in vars(x).items()) + '>'
    return tn + ':' + repr(x)


def dump_world(w):
    return {k: deep_dump(v) for k, v in w.items()}


def diff_worlds(d0, d1):
    return sorted(k for k in d0 if d0[k] != d1.get(k))


# ------------------------------------------------------------------------------------------------ mutation of results

def _reachable_ids(x, acc, depth=0):
    """ids of record objects reachable from the world (they were handed in by the caller)"""
    if depth > 12 or x is None or isinstance(x, (bool, int, float, str)):
        return
    if isinstance(x, dict):
        for v in x.values():
            _reachable_ids(v, acc, depth + 1)
    elif isinstance(x, (list, tuple, set, frozenset)):
        for v in x:
            _reachable_ids(v, acc, depth + 1)
    elif _is_annotation(x):
        for f in dataclasses.fields(x):
            _reachable_ids(getattr(x, f.name), acc, depth + 1)
    elif dataclasses.is_dataclass(x):
        acc.add(id(x))
        for f in dataclasses.fields(x):
            _reachable_ids(getattr(x, f.name, None), acc, depth + 1)


def world_record_ids(w):
    acc = set()
    for v in w.values():
        _reachable_ids(v, acc)
    return acc


_SENTINEL = '__c08_mutated__'


def mutate(x, caller_records, seen=None, depth=0):
    """edit every container and annotation reachable from a result, as a caller who owns the result may do.
    Record objects (Mod, Interval, Fragment ...) the caller itself passed in are not entered: handing back an element that was
    handed in is selection, not leakage.  Scalar fields of records are never reassigned (records are values)."""
    if seen is None:
        seen = set()
    if depth > 12 or x is None or isinstance(x, (bool, int, float, str, types.GeneratorType)):
        return
    if id(x) in seen:
        return
    seen.add(id(x))
    if isinstance(x, dict):
        for v in list(x.values()):
            mutate(v, caller_records, seen, depth + 1)
        try:
            if x:
                x.pop(next(iter(x)))
            x[_SENTINEL] = 1
        except Exception:
            pass
    elif isinstance(x, list):
        for v in list(x):
            mutate(v, caller_records, seen, depth + 1)
        try:
            x.reverse()
            x.append(_SENTINEL)
        except Exception:
            pass
    elif isinstance(x, set):
        for v in list(x):
            mutate(v, caller_records, seen, depth + 1)
        x.add(_SENTINEL)
    elif isinstance(x, (tuple, frozenset)):
        for v in x:
            mutate(v, caller_records, seen, depth + 1)
    elif _is_annotation(x):
        for f in dataclasses.fields(x):
            mutate(getattr(x, f.name), caller_records, seen, depth + 1)
        x._sequence = (x._sequence or '') + 'W'
        x._labile_mods = None
        x._nterm_mods = None
        x._charge = 7
    elif dataclasses.is_dataclass(x) and not isinstance(x, type):
        if id(x) in caller_records:
            return
        for f in dataclasses.fields(x):
            mutate(getattr(x, f.name, None), caller_records, seen, depth + 1)


# ------------------------------------------------------------------------------------------------ global state

def rng_stamp():
    return hashlib.sha1(repr(_random.getstate()).encode()).hexdigest()


def _dbs():
    from peptacular.mods import mod_db_setup as s
    return [('MONOSACCHARIDES_DB', s.MONOSACCHARIDES_DB), ('UNIMOD_DB', s.UNIMOD_DB), ('PSI_MOD_DB', s.PSI_MOD_DB),
            ('XLMOD_DB', s.XLMOD_DB)]


_DB_FIELDS = ('id_map', 'name_map', 'synonym_map', 'mono_mass_map', 'avg_mass_map', 'names_sorted', 'entries')


def db_stamp_cheap():
    """identity and size of every map of the four loaded EntryDb objects (detects rebinding, insertion, deletion)"""
    out = []
    for name, db in _dbs():
        for f in _DB_FIELDS:
            m = getattr(db, f)
            out.append((name, f, id(m), len(m)))
        out.append((name, 'use_synonyms', db.use_synonyms, 0))
    return tuple(out)


def db_stamp_full():
    """content digest of the four EntryDb objects plus the module-level tables of peptacular.constants / chem_constants"""
    h = hashlib.sha1()
    for name, db in _dbs():
        for f in _DB_FIELDS:
            m = getattr(db, f)
            if isinstance(m, dict):
                for k, v in m.items():
                    h.update(repr(k).encode())
                    h.update(deep_dump(v).encode())
            else:
                for v in m:
                    h.update(deep_dump(v).encode())
    h.update(module_tables_digest().encode())
    return h.hexdigest()


def module_tables_stamp_cheap():
    """identity and size of every module-level dict / list / set of every loaded peptacular module (detects a table that is
    rebound or grows / shrinks, e.g. a memo cache being filled)"""
    import sys
    out = []
    for name in sorted(m for m in sys.modules if m == 'peptacular' or m.startswith('peptacular.')):
        mod = sys.modules[name]
        if mod is None:
            continue
        for k, v in vars(mod).items():
            if isinstance(v, (dict, list, set)) and not k.startswith('__'):
                out.append((name, k, id(v), len(v)))
    return out


def module_tables_digest(only=None):
    """content digest of every module-level dict / list / set / tuple of every loaded peptacular module"""
    import sys
    h = hashlib.sha1()
    for name in sorted(m for m in sys.modules if m == 'peptacular' or m.startswith('peptacular.')):
        mod = sys.modules[name]
        if mod is None:
            continue
        for k in sorted(vars(mod)):
            v = vars(mod)[k]
            if k.startswith('__') or isinstance(v, (types.ModuleType, types.FunctionType, type)):
                continue
            if isinstance(v, (dict, list, set, frozenset, tuple)):
                h.update((name + '.' + k).encode())
                h.update(deep_dump(v).encode())
    return h.hexdigest()


# ------------------------------------------------------------------------------------------------ worlds

SHAPE_STRINGS = [
    # labile + terminal + internal + charge (everything `fragment`, `mass`, `condense_to_mass_mods` can digest)
    '{Glycan:Hex}{+79.97}[Acetyl]-PEM[Oxidation]TK-[Amidated]/2',
    # static + isotope + labile + terminal + charge adducts
    '<13C><[Carbamidomethyl]@C>{Phospho}[Acetyl]-CEC[Phospho]K-[Methyl]/2[+2Na+]',
    # numeric mods everywhere, two labile mods, charge
    '{+79.97}{+1.5}[+42.01]-S[+15.995]TK[-17.03][+1]E-[+0.98]/3',
    # intervals + unknown + labile + terminals + charge
    '[Phospho]?{Glycan:Hex}[Acetyl]-PE(PT)[+10]IDE-[Methyl]/2',
    # ambiguous interval + static terminal rule + isotope
    '<15N><[Acetyl]@N-Term>{Oxidation}(?MK)S[Phospho]R-[Amidated]',
    # plain
    'PEPTIDE',
    # labile only
    '{Glycan:HexNAc}{Phospho}MSTK',
    # terminals + charge only
    '[Acetyl]-KRMS-[Amidated]/1',
]


def build_world(base, rng=None):
    """all caller-owned objects for one annotation shape"""
    import peptacular as pt
    from peptacular.proforma.proforma_dataclasses import Mod, Interval
    from peptacular.digestion import EnzymeConfig
    a = base.copy()
    n = len(a.sequence)
    w = {}
    w['a'] = a
    sub = ProFormaSlice(a, min(1, n - 1), min(3, n))
    w['sub'] = sub
    w['subs'] = [ProFormaSlice(a, 0, min(2, n)), a.sequence[max(0, n - 2):], ProFormaSlice(a, min(1, n - 1), n)]
    w['other'] = ProFormaSlice(a, 0, n)
    w['comp'] = {'C': 6, 'H': 12, 'N': 0, 'O': 6, 'e': -1, 'p': 1, 'n': 0, 'S': 1}
    w['compf'] = {'C': 4.5, 'H': 8, 'O': 0, 'e': 1}
    w['glycan'] = {'Hex': 2, 'HexNAc': 1}
    w['mods'] = {'nterm': ['Acetyl', 1.5], 'labile': 'Phospho', 'static': ['[Methyl]@K'], 0: [15.995, 'Oxidation'],
                 'intervals': [(0, min(2, n), False, ['Methyl'])], 'charge': 2, 'charge_adducts': ['+H+']}
    w['modlist'] = ['Phospho', 1.5, Mod('Acetyl', 1)]
    w['modlist_m'] = [Mod('Phospho', 1), Mod(15.995, 2)]
    w['modlist_m2'] = [Mod(15.995, 2), Mod('Phospho', 1)]
    w['modll'] = [['Phospho'], [], [1.0, Mod('Acetyl', 1)]]
    w['moddict'] = {0: 'Phospho', max(0, n - 1): [1.0, 'Acetyl']}
    w['static_in'] = {'K': ['Methyl'], 'S': [79.97], 'C': 'Carbamidomethyl'}
    w['var_in'] = {'M': ['Oxidation'], 'S': [79.97], 'K': 'Methyl'}
    w['term_in'] = ['Acetyl']
    w['intervals_in'] = [(0, min(2, n), False, ['Phospho']), Interval(0, 1, True, [Mod(1.0, 1)])]
    w['interval_in'] = (0, min(2, n), False, ['Phospho', 2.0])
    w['ivs1'] = [Interval(0, 2, False, [Mod('a', 1)]), Interval(1, 3, True, None)]
    w['ivs2'] = [Interval(1, 3, True, None), Interval(0, 2, False, [Mod('a', 1)])]
    w['losses'] = [('[ST]', -97.98), ('K', -1.0)]
    w['loss1'] = ('[ST]', -97.98)
    w['ion_types'] = ['y', 'b']
    w['ion_types_all'] = ['b', 'y', 'by', 'i']
    w['charges'] = [2, 1]
    w['isotopes'] = [0, 1]
    w['iso_mods'] = ['13C', '15N']
    w['iso_mods_m'] = [Mod('13C', 1)]
    w['static_mods_l'] = ['[Acetyl]@N-Term', Mod('[+57.02]@C,K', 1)]
    w['iso_dict'] = {'C': '13C', 'N': '15N'}
    w['static_dict'] = {'C': [Mod('Carbamidomethyl', 1)], 'N-Term': [Mod('Acetyl', 1)]}
    w['adduct_dict'] = {'Na': 2, 'H': -1}
    w['sites'] = [3, 1, n]
    w['spans'] = [(0, min(2, n), 0), (min(1, n), n, 1), (0, n, 2)]
    w['span'] = (0, min(3, n), 0)
    w['enz'] = ['([KR])', 'M']
    try:
        w['configs'] = [EnzymeConfig(regex=['([KR])'], missed_cleavages=1), EnzymeConfig(regex='M', semi_enzymatic=True)]
        w['config'] = EnzymeConfig(regex=['([KR])', 'E'], missed_cleavages=1, semi_enzymatic=False, complete_digestion=False)
    except Exception:
        w['configs'], w['config'] = [], None
    w['d1'] = {'C': 2, 'H': 3, 'O': -1}
    w['d2'] = {'O': 1, 'N': 1}
    w['dists'] = [[(100.0, 1.0), (101.0, 0.5)], [(100.0, 0.2), (102.0, 0.1)]]
    # the same *strings* are handed to several calls: a memoised parser must not hand out (and let callers edit) a shared object
    try:
        w['s'] = a.serialize()
        pt.parse(w['s'])
    except Exception:
        w['s'] = a.sequence
    w['s_sub'] = a.sequence[min(1, n - 1):min(3, n)]
    w['formula'] = 'C6H12O6'
    w['formula2'] = 'C2H5NO[13C2]'
    w['glycan_s'] = 'HexNAc2Hex3'
    w['annots'] = [ProFormaSlice(a, 0, n), ProFormaSlice(a, 0, min(2, n))]
    w['conns'] = [True]
    # fragments of an unambiguous relative of the shape, deliberately not in m/z order
    fa = a.copy()
    fa._intervals = None
    fa._unknown_mods = None
    fa._labile_mods = None
    try:
        frags = pt.fragment(fa.copy(), ['y', 'b'], [1, 2], isotopes=[0, 1])
    except Exception:
        try:
            frags = pt.fragment(fa.sequence, ['y', 'b'], [1, 2], isotopes=[0, 1])
        except Exception:
            frags = []
    w['frags'] = frags
    frags = [f for f in frags if hasattr(f, 'mz')]
    w['frags'] = frags
    w['frag_mzs'] = [f.mz for f in frags][::-1]
    mzs = sorted(f.mz + (0.001 if i % 3 else 0.4) for i, f in enumerate(frags) if i % 4 != 1)
    w['mzs'] = list(reversed(mzs))          # unsorted on purpose
    w['mzs_sorted'] = list(mzs)
    w['ints'] = [float(10 + (i * 7) % 13) for i in range(len(mzs))]
    try:
        w['fmatches'] = pt.get_fragment_matches(list(frags), list(mzs), list(w['ints']), 0.1, 'th', 'all')
    except Exception:
        w['fmatches'] = []
    return w


def ProFormaSlice(a, i, j):
    s = a.slice(i, j)
    return s.copy()


def shapes(rng, k_random=4):
    import peptacular as pt
    out = []
    for s in SHAPE_STRINGS:
        out.append(pt.parse(s))
    pool = ['Oxidation', 'Phospho', 'Acetyl', 'Methyl', 'Formula:C2H3NO', 'Glycan:Hex', 15.995, -18.0106, 1.5, 42.0106, 79.97, 1]
    for i in range(k_random):
        kinds = {'labile', 'static', 'isotope', 'nterm', 'cterm', 'internal', 'charge', 'adducts'}
        if i % 2:
            kinds |= {'intervals', 'unknown'}
        a = annot.gen_annotation(rng, min_len=3, max_len=5, residues='ACDEKMRST', p=0.7, kinds=kinds, value_pool=pool,
                                 mult_p=0.15)
        if a._labile_mods is None:
            from peptacular.proforma.proforma_dataclasses import Mod
            a._labile_mods = [Mod(rng.choice(pool), 1)]
        out.append(a)
    return out


# ------------------------------------------------------------------------------------------------ call specs

class Spec:
    __slots__ = ('name', 'api', 'fn', 'editor', 'target', 'random', 'accessor', 'uses', 'params')

    def __init__(self, name, api, fn, uses, editor=False, target=None, rnd=False, accessor=False, params=None):
        self.name = name          # unique spec name, e.g. 'mass[b,2]'
        self.api = api            # API member it exercises
        self.fn = fn              # world -> result
        self.uses = uses          # world keys handed to the call
        self.editor = editor      # declared editor (by the property's naming rule)
        self.target = target      # world key the editor is allowed to edit
        self.random = rnd         # random by contract (unseeded shuffle)
        self.accessor = accessor  # returns a field by reference by design
        self.params = params or {}  # world key -> parameter name of the API member (for the static comparison)


def consume(r):
    if isinstance(r, types.GeneratorType):
        return list(r)
    return r


def make_specs():
    import peptacular as pt
    from peptacular.proforma.proforma_dataclasses import Mod
    S = []

    def F(name, fn, uses, api=None, **kw):
        api_ = api or name.split('[')[0]
        ed = is_declared_editor(api_, name)
        tgt = kw.pop('target', 'a' if ed and 'a' in uses else None)
        S.append(Spec(name, api_, fn, uses, editor=ed, target=tgt, **kw))

    def M(name, fn, uses=('a',), **kw):
        api_ = 'ProFormaAnnotation.' + name.split('[')[0]
        ed = is_declared_editor(api_, name)
        S.append(Spec('A.' + name, api_, fn, tuple(uses), editor=ed, target='a' if ed else None,
                      params=kw.pop('params', None) or {'a': 'self'}, **kw))

    P = lambda **kw: kw  # noqa

    # ---- module-level functions taking a sequence/annotation
    F('add_mods', lambda w: pt.add_mods(w['a'], w['mods']), ('a', 'mods'), params=P(a='sequence', mods='mods'))
    F('add_mods[append=False]', lambda w: pt.add_mods(w['a'], w['mods'], append=False), ('a', 'mods'),
      params=P(a='sequence', mods='mods'))
    F('apply_static_mods', lambda w: pt.apply_static_mods(w['a'], w['static_in'], w['term_in'], w['term_in']),
      ('a', 'static_in', 'term_in'), params=P(a='sequence', static_in='internal_mods', term_in='nterm_mods'))
    F('apply_static_mods[annotation,overwrite]',
      lambda w: pt.apply_static_mods(w['a'], w['static_in'], mode='overwrite', return_type='annotation'),
      ('a', 'static_in'), params=P(a='sequence', static_in='internal_mods'))
    F('apply_variable_mods', lambda w: pt.apply_variable_mods(w['a'], w['var_in'], 2, w['term_in'], w['term_in']),
      ('a', 'var_in', 'term_in'), params=P(a='sequence', var_in='internal_mods', term_in='nterm_mods'))
    F('apply_variable_mods[annotation,max0]',
      lambda w: pt.apply_variable_mods(w['a'], w['var_in'], 0, return_type='annotation'),
      ('a', 'var_in'), params=P(a='sequence', var_in='internal_mods'))
    F('apply_variable_mods[annotation,append]',
      lambda w: pt.apply_variable_mods(w['a'], w['var_in'], 1, mode='append', return_type='annotation'),
      ('a', 'var_in'), params=P(a='sequence', var_in='internal_mods'))
    for nm in ('combinations', 'combinations_with_replacement', 'permutations'):
        F(nm, lambda w, nm=nm: getattr(pt, nm)(w['a'], 2), ('a',), params=P(a='sequence'))
    F('product', lambda w: pt.product(w['a'], 2), ('a',), params=P(a='sequence'))
    F('comp', lambda w: pt.comp(w['a'], estimate_delta=True), ('a',), params=P(a='sequence'))
    F('comp[b,iso_mods]', lambda w: pt.comp(w['a'], 'b', True, 1, 0, None, w['iso_mods']), ('a', 'iso_mods'),
      params=P(a='sequence', iso_mods='isotope_mods'))
    F('comp_mass', lambda w: pt.comp_mass(w['a']), ('a',), params=P(a='sequence'))
    F('comp_mass[y,2,iso_mods]', lambda w: pt.comp_mass(w['a'], 'y', 2, 1, '+Na+', w['iso_mods_m'], True),
      ('a', 'iso_mods_m'), params=P(a='sequence', iso_mods_m='isotope_mods'))
    F('condense_static_mods', lambda w: pt.condense_static_mods(w['a']), ('a',), params=P(a='sequence'))
    F('condense_to_mass_mods', lambda w: pt.condense_to_mass_mods(w['a']), ('a',), params=P(a='sequence'))
    F('condense_to_mass_mods[plus,p2]', lambda w: pt.condense_to_mass_mods(w['a'], True, 2), ('a',), params=P(a='sequence'))
    F('count_aa', lambda w: pt.count_aa(w['a']), ('a',), params=P(a='sequence'))
    F('count_residues', lambda w: pt.count_residues(w['a']), ('a',), params=P(a='sequence'))
    F('coverage', lambda w: pt.coverage(w['a'], w['subs']), ('a', 'subs'), params=P(a='sequence', subs='subsequences'))
    F('coverage[accumulate,ignore]', lambda w: pt.coverage(w['a'], w['subs'], True, True), ('a', 'subs'),
      params=P(a='sequence', subs='subsequences'))
    F('percent_coverage', lambda w: pt.percent_coverage(w['a'], w['subs']), ('a', 'subs'),
      params=P(a='sequence', subs='subsequences'))
    F('digest', lambda w: pt.digest(w['a'], w['enz'], 1), ('a', 'enz'), params=P(a='sequence', enz='enzyme_regex'))
    F('digest[semi,annotation]', lambda w: pt.digest(w['a'], 'trypsin', 1, True, 1, None, False, 'annotation'), ('a',),
      params=P(a='sequence'))
    F('digest[str-span]', lambda w: pt.digest(w['a'], w['enz'], 2, return_type='str-span'), ('a', 'enz'),
      params=P(a='sequence', enz='enzyme_regex'))
    F('digest_from_config', lambda w: pt.digest_from_config(w['a'], w['config']), ('a', 'config'), params=P(a='sequence'))
    F('sequential_digest', lambda w: pt.sequential_digest(w['a'], w['configs']), ('a', 'configs'),
      params=P(a='sequence', configs='enzyme_configs'))
    F('get_cleavage_sites', lambda w: pt.get_cleavage_sites(w['a'], '([KR])'), ('a',), params=P(a='sequence'))
    for nm in ('get_left_semi_enzymatic_sequences', 'get_right_semi_enzymatic_sequences', 'get_semi_enzymatic_sequences',
               'get_non_enzymatic_sequences'):
        F(nm, lambda w, nm=nm: getattr(pt, nm)(w['a']), ('a',), params=P(a='sequence'))
        F(nm + '[annotation]', lambda w, nm=nm: getattr(pt, nm)(w['a'], 1, 3, 'annotation'), ('a',), params=P(a='sequence'))
    F('find_subsequence_indices', lambda w: pt.find_subsequence_indices(w['a'], w['sub']), ('a', 'sub'),
      params=P(a='sequence', sub='subsequence'))
    F('find_subsequence_indices[ignore_mods]', lambda w: pt.find_subsequence_indices(w['a'], w['sub'], True), ('a', 'sub'),
      params=P(a='sequence', sub='subsequence'))
    F('is_subsequence', lambda w: pt.is_subsequence(w['sub'], w['a']), ('a', 'sub'), params=P(a='sequence', sub='subsequence'))
    F('is_subsequence[unordered]', lambda w: pt.is_subsequence(w['sub'], w['a'], False), ('a', 'sub'),
      params=P(a='sequence', sub='subsequence'))
    F('fragment', lambda w: pt.fragment(w['a'], w['ion_types'], w['charges']), ('a', 'ion_types', 'charges'),
      params=P(a='sequence', ion_types='ion_types', charges='charges'))
    F('fragment[losses]', lambda w: pt.fragment(w['a'], w['ion_types'], w['charges'], True, w['isotopes'], True, True,
                                                w['losses'], 2, 'mz-label'),
      ('a', 'ion_types', 'charges', 'isotopes', 'losses'),
      params=P(a='sequence', ion_types='ion_types', charges='charges', isotopes='isotopes', losses='losses'))
    F('fragment[all,label]', lambda w: pt.fragment(w['a'], w['ion_types_all'], 1, water_loss=True, losses=w['loss1'],
                                                   return_type='label'),
      ('a', 'ion_types_all', 'loss1'), params=P(a='sequence', ion_types_all='ion_types', loss1='losses'))
    F('Fragmenter', lambda w: pt.Fragmenter(w['a']).fragment('b', 1, losses=w['losses'], water_loss=True), ('a', 'losses'),
      api='Fragmenter', params=P())     # composite (constructor + .fragment): compared dynamically only
    F('get_mods', lambda w: pt.get_mods(w['a']), ('a',), params=P(a='sequence'))
    F('pop_mods', lambda w: pt.pop_mods(w['a']), ('a',), params=P(a='sequence'))
    for nm in ('is_ambiguous', 'is_modified', 'is_sequence_valid', 'sequence_length', 'strip_mods', 'sort', 'serialize'):
        F(nm, lambda w, nm=nm: getattr(pt, nm)(w['a']), ('a',), params=P(a='sequence' if nm != 'serialize' else 'annotation'))
    F('mass', lambda w: pt.mass(w['a']), ('a',), params=P(a='sequence'))
    F('mass[b,2,iso]', lambda w: pt.mass(w['a'], 2, 'b', True, 1, -18.0, '+Na+', w['iso_mods'], True, 4), ('a', 'iso_mods'),
      params=P(a='sequence', iso_mods='isotope_mods'))
    F('mass[avg]', lambda w: pt.mass(w['a'], monoisotopic=False), ('a',), params=P(a='sequence'))
    F('mz', lambda w: pt.mz(w['a']), ('a',), params=P(a='sequence'))
    F('mz[3,iso]', lambda w: pt.mz(w['a'], 3, 'y', True, 0, 0.0, None, w['iso_mods_m'], 3), ('a', 'iso_mods_m'),
      params=P(a='sequence', iso_mods_m='isotope_mods'))
    F('reverse', lambda w: pt.reverse(w['a']), ('a',), params=P(a='sequence'))
    F('reverse[swap]', lambda w: pt.reverse(w['a'], True, True), ('a',), params=P(a='sequence'))
    F('shift', lambda w: pt.shift(w['a'], 2), ('a',), params=P(a='sequence'))
    F('shuffle[seed]', lambda w: pt.shuffle(w['a'], 7), ('a',), params=P(a='sequence'))
    F('shuffle', lambda w: pt.shuffle(w['a']), ('a',), rnd=True, params=P(a='sequence'))
    F('span_to_sequence', lambda w: pt.span_to_sequence(w['a'], w['span']), ('a', 'span'), params=P(a='sequence'))
    F('split', lambda w: pt.split(w['a']), ('a',), params=P(a='sequence'))

    # ---- dict / list functions
    F('apply_isotope_mods_to_composition', lambda w: pt.apply_isotope_mods_to_composition(w['comp'], w['iso_mods']),
      ('comp', 'iso_mods'), params=P(comp='composition', iso_mods='isotopic_mods'))
    F('are_intervals_equal', lambda w: pt.are_intervals_equal(w['ivs1'], w['ivs2']), ('ivs1', 'ivs2'),
      params=P(ivs1='intervals1', ivs2='intervals2'))
    F('are_mods_equal', lambda w: pt.are_mods_equal(w['modlist_m'], w['modlist_m2']), ('modlist_m', 'modlist_m2'),
      params=P(modlist_m='mods1', modlist_m2='mods2'))
    F('binomial_score', lambda w: pt.binomial_score(w['frags'], w['mzs'], 0.1, 'th'), ('frags', 'mzs'),
      params=P(frags='fragments', mzs='mz_spectra'))
    F('binomial_score[floats]', lambda w: pt.binomial_score(w['frag_mzs'], w['mzs'], 50, 'ppm'), ('frag_mzs', 'mzs'),
      params=P(frag_mzs='fragments', mzs='mz_spectra'))
    F('build_enzymatic_spans', lambda w: pt.build_enzymatic_spans(len(w['a']), w['sites'], 1), ('sites',),
      params=P(sites='enzyme_sites'))
    F('build_semi_spans', lambda w: pt.build_semi_spans(w['spans'], 1, None), ('spans',), params=P(spans='spans'))
    F('build_spans', lambda w: pt.build_spans(len(w['a']), w['sites'], 1, None, None, True), ('sites',),
      params=P(sites='enzyme_sites'))
    F('calculate_span_coverage', lambda w: pt.calculate_span_coverage(w['spans'], len(w['a']), True), ('spans',),
      params=P(spans='spans'))
    F('chem_mass', lambda w: pt.chem_mass(w['comp']), ('comp',), params=P(comp='formula'))
    F('chem_mz', lambda w: pt.chem_mz(w['comp'], 2), ('comp',), params=P(comp='formula'))
    F('convert_glycan_formula_to_chem_formula', lambda w: pt.convert_glycan_formula_to_chem_formula(w['glycan']), ('glycan',),
      params=P(glycan='glycan'))
    F('glycan_comp', lambda w: pt.glycan_comp(w['glycan']), ('glycan',), params=P(glycan='glycan'))
    F('glycan_mass', lambda w: pt.glycan_mass(w['glycan']), ('glycan',), params=P(glycan='formula'))
    F('glycan_mz', lambda w: pt.glycan_mz(w['glycan'], 1), ('glycan',), params=P(glycan='formula'))
    F('glycan_to_chem', lambda w: pt.glycan_to_chem(w['glycan']), ('glycan',), params=P(glycan='glycan'))
    F('write_glycan_formula', lambda w: pt.write_glycan_formula(w['glycan']), ('glycan',), params=P(glycan='glycan_dict'))
    F('create_annotation', lambda w: pt.create_annotation(w['a'].sequence, w['iso_mods'], w['static_mods_l'], w['modlist'],
                                                          None, w['term_in'], w['modlist_m'], w['moddict'],
                                                          w['intervals_in'], 2, ['+H+']),
      ('iso_mods', 'static_mods_l', 'modlist', 'term_in', 'modlist_m', 'moddict', 'intervals_in'),
      params=P(iso_mods='isotope_mods', static_mods_l='static_mods', modlist='labile_mods', term_in='nterm_mods',
               modlist_m='cterm_mods', moddict='internal_mods', intervals_in='intervals'))
    F('create_multi_annotation', lambda w: pt.create_multi_annotation(w['annots'], w['conns']), ('annots', 'conns'),
      params=P(annots='annotations', conns='connections'))
    F('estimate_comp', lambda w: pt.estimate_comp(1000.5, w['iso_mods']), ('iso_mods',), params=P(iso_mods='isotopic_mods'))
    F('filter_missing_mono_isotope', lambda w: pt.filter_missing_mono_isotope(w['fmatches']), ('fmatches',),
      params=P(fmatches='fragment_matches'))
    F('filter_skipped_isotopes', lambda w: pt.filter_skipped_isotopes(w['fmatches']), ('fmatches',),
      params=P(fmatches='fragment_matches'))
    F('get_match_coverage', lambda w: pt.get_match_coverage(w['fmatches']), ('fmatches',), params=P(fmatches='fragment_matches'))
    F('get_matched_intensity_percentage', lambda w: pt.get_matched_intensity_percentage(w['fmatches'], w['ints']),
      ('fmatches', 'ints'), params=P(fmatches='fragment_matches', ints='intensities'))
    F('fix_dict_of_mods', lambda w: pt.fix_dict_of_mods(w['moddict']), ('moddict',), params=P(moddict='mods'))
    F('fix_interval_input', lambda w: pt.fix_interval_input(w['interval_in']), ('interval_in',), params=P(interval_in='interval'))
    F('fix_intervals_input', lambda w: pt.fix_intervals_input(w['intervals_in']), ('intervals_in',),
      params=P(intervals_in='intervals'))
    F('fix_intervals_input[intervals]', lambda w: pt.fix_intervals_input(w['ivs1']), ('ivs1',), params=P(ivs1='intervals'))
    F('fix_list_of_list_of_mods', lambda w: pt.fix_list_of_list_of_mods(w['modll']), ('modll',), params=P(modll='mods'))
    F('fix_list_of_mods', lambda w: pt.fix_list_of_mods(w['modlist']), ('modlist',), params=P(modlist='mods'))
    F('fix_list_of_mods[mods]', lambda w: pt.fix_list_of_mods(w['modlist_m']), ('modlist_m',), params=P(modlist_m='mods'))
    F('remove_empty_list_of_list_of_mods', lambda w: pt.remove_empty_list_of_list_of_mods(w['modll']), ('modll',),
      params=P(modll='mods'))
    F('remove_empty_list_of_mods', lambda w: pt.remove_empty_list_of_mods(w['modlist_m']), ('modlist_m',),
      params=P(modlist_m='mods'))
    F('get_fragment_matches', lambda w: pt.get_fragment_matches(w['frags'], w['mzs'], w['ints'], 0.5, 'th', 'all'),
      ('frags', 'mzs', 'ints'), params=P(frags='fragments', mzs='mz_spectra', ints='intensity_spectra'))
    F('get_fragment_matches[closest]', lambda w: pt.get_fragment_matches(w['frags'], w['mzs'], w['ints'], 500, 'ppm', 'closest'),
      ('frags', 'mzs', 'ints'), params=P(frags='fragments', mzs='mz_spectra', ints='intensity_spectra'))
    F('get_losses', lambda w: pt.get_losses(w['a'].sequence, w['losses'], 2), ('losses',), params=P(losses='losses'))
    F('get_matched_indices', lambda w: pt.get_matched_indices(w['frag_mzs'][::-1], w['mzs_sorted'], 0.5, 'th'),
      ('frag_mzs', 'mzs_sorted'), params=P(mzs_sorted='mz_spectrum2'))
    F('match_spectra', lambda w: pt.match_spectra(sorted(w['frag_mzs']), w['mzs_sorted'], 0.5, 'th', 'largest', w['ints']),
      ('mzs_sorted', 'ints'), params=P(mzs_sorted='mz_spectra', ints='intensity_spectra'))
    F('isotopic_distribution', lambda w: pt.isotopic_distribution(w['comp'], 5, 0.001, 3), ('comp',),
      params=P(comp='chemical_formula'))
    F('isotopic_distribution[float]', lambda w: pt.isotopic_distribution(w['compf'], 4, 0.001, 3), ('compf',),
      params=P(compf='chemical_formula'))
    F('merge_isotopic_distributions', lambda w: pt.merge_isotopic_distributions(*w['dists']), ('dists',),
      params=P(dists='distributions'))
    F('merge_dicts', lambda w: pt.merge_dicts(w['d1'], w['d2']), ('d1', 'd2'), params=P(d1='d1', d2='d2'))
    F('mod_mass', lambda w: pt.mod_mass(w['modlist_m'][0]), ('modlist_m',), params=P())
    F('parse_isotope_mods', lambda w: pt.parse_isotope_mods(w['iso_mods_m']), ('iso_mods_m',), params=P(iso_mods_m='mods'))
    F('parse_static_mods', lambda w: pt.parse_static_mods(w['static_mods_l']), ('static_mods_l',), params=P(static_mods_l='mods'))
    F('write_charge_adducts', lambda w: pt.write_charge_adducts(w['adduct_dict']), ('adduct_dict',),
      params=P(adduct_dict='charge_adducts'))
    F('write_chem_formula', lambda w: pt.write_chem_formula(w['comp'], hill_order=True), ('comp',), params=P(comp='composition'))
    F('write_isotope_mods', lambda w: pt.write_isotope_mods(w['iso_dict']), ('iso_dict',), params=P(iso_dict='mods'))
    F('write_static_mods', lambda w: pt.write_static_mods(w['static_dict']), ('static_dict',), params=P(static_dict='mods'))

    # ---- the same public functions on strings (and the str-only public functions): one string object for every call
    def FS(name, fn, uses, api=None, **kw):
        S.append(Spec('str:' + name, api or name.split('[')[0], fn, uses, params={}, **kw))
    FS('parse_chem_formula', lambda w: pt.parse_chem_formula(w['formula']), ('formula',))
    FS('parse_chem_formula[iso]', lambda w: pt.parse_chem_formula(w['formula2']), ('formula2',))
    FS('chem_mass', lambda w: pt.chem_mass(w['formula']), ('formula',))
    FS('chem_mass[iso]', lambda w: pt.chem_mass(w['formula2'], monoisotopic=False), ('formula2',))
    FS('chem_mz', lambda w: pt.chem_mz(w['formula'], 2), ('formula',))
    FS('apply_isotope_mods_to_composition', lambda w: pt.apply_isotope_mods_to_composition(w['formula'], ['13C']), ('formula',))
    FS('apply_isotope_mods_to_composition[iso]', lambda w: pt.apply_isotope_mods_to_composition(w['formula2'], ['15N', 'D']),
       ('formula2',))
    FS('isotopic_distribution', lambda w: pt.isotopic_distribution(pt.parse_chem_formula(w['formula']), 4, 0.001, 3), ('formula',))
    FS('glycan_comp', lambda w: pt.glycan_comp(w['glycan_s']), ('glycan_s',))
    FS('glycan_mass', lambda w: pt.glycan_mass(w['glycan_s']), ('glycan_s',))
    FS('glycan_to_chem', lambda w: pt.glycan_to_chem(w['glycan_s']), ('glycan_s',))
    FS('parse_glycan_formula', lambda w: pt.parse_glycan_formula(w['glycan_s']), ('glycan_s',))
    FS('convert_glycan_formula_to_chem_formula', lambda w: pt.convert_glycan_formula_to_chem_formula(w['glycan_s']), ('glycan_s',))
    for m in ('Oxidation', 'Formula:C2H3NO', 'Glycan:HexNAc2Hex3', 'UNIMOD:21', '+15.995', 'Formula:[13C2]H4'):
        FS(f'mod_mass[{m}]', lambda w, m=m: pt.mod_mass(m), ())
        FS(f'mod_comp[{m}]', lambda w, m=m: pt.mod_comp(m), ())
    FS('parse', lambda w: pt.parse(w['s']), ('s',))
    FS('sequence_to_annotation', lambda w: pt.sequence_to_annotation(w['s']), ('s',))
    FS('serialize', lambda w: pt.serialize(pt.parse(w['s'])), ('s',))
    for nm in ('mass', 'mz', 'comp_mass', 'get_mods', 'pop_mods', 'strip_mods', 'reverse', 'sort', 'split', 'count_residues',
               'sequence_length', 'is_modified', 'is_ambiguous', 'condense_static_mods', 'condense_to_mass_mods', 'count_aa'):
        FS(nm, lambda w, nm=nm: getattr(pt, nm)(w['s']), ('s',))
    FS('comp', lambda w: pt.comp(w['s'], estimate_delta=True), ('s',))
    FS('mass[b,2]', lambda w: pt.mass(w['s'], 2, 'b'), ('s',))
    FS('shift', lambda w: pt.shift(w['s'], 2), ('s',))
    FS('shuffle[seed]', lambda w: pt.shuffle(w['s'], 5), ('s',))
    FS('span_to_sequence', lambda w: pt.span_to_sequence(w['s'], (0, 2, 0)), ('s',))
    FS('fragment', lambda w: pt.fragment(w['s'], ['b', 'y'], [1, 2], return_type='mz-label'), ('s',))
    FS('fragment[objects]', lambda w: pt.fragment(w['s'], 'y', 1), ('s',))
    FS('digest', lambda w: pt.digest(w['s'], '([KR])', 1), ('s',))
    FS('digest[annotation]', lambda w: pt.digest(w['s'], 'trypsin', 1, return_type='annotation'), ('s',))
    FS('get_non_enzymatic_sequences', lambda w: pt.get_non_enzymatic_sequences(w['s'], 1, 3), ('s',))
    FS('coverage', lambda w: pt.coverage(w['s'], [w['s_sub']]), ('s', 's_sub'))
    FS('find_subsequence_indices', lambda w: pt.find_subsequence_indices(w['s'], w['s_sub'], True), ('s', 's_sub'))
    FS('is_subsequence', lambda w: pt.is_subsequence(w['s_sub'], w['s'], False), ('s', 's_sub'))
    FS('permutations', lambda w: pt.permutations(w['s'], 2), ('s',))
    FS('combinations', lambda w: pt.combinations(w['s'], 2), ('s',))
    FS('apply_static_mods', lambda w: pt.apply_static_mods(w['s'], {'K': ['Methyl']}, return_type='annotation'), ('s',))
    FS('apply_variable_mods', lambda w: pt.apply_variable_mods(w['s'], {'K': ['Methyl']}, 1, return_type='annotation'), ('s',))
    FS('add_mods', lambda w: pt.add_mods(w['s'], {'nterm': 'Acetyl'}), ('s',))
    FS('Fragmenter', lambda w: pt.Fragmenter(w['s']).fragment(['b', 'y'], 1, return_type='mz'), ('s',), api='Fragmenter')

    # ---- annotation methods: queries
    for nm in ('has_sequence', 'has_isotope_mods', 'has_static_mods', 'has_labile_mods', 'has_unknown_mods', 'has_nterm_mods',
               'has_cterm_mods', 'has_internal_mods', 'has_intervals', 'has_charge', 'has_charge_adducts', 'has_mods',
               'copy', 'dict', 'mod_dict', 'contains_sequence_ambiguity', 'contains_residue_ambiguity',
               'contains_mass_ambiguity', 'count_internal_mods', 'count_modified_residues', 'count_residues', 'serialize',
               'serialize_start', 'serialize_middle', 'serialize_end', 'split', 'condense_static_mods', 'strip', 'reverse',
               'sort_residues'):
        M(nm, lambda w, nm=nm: getattr(w['a'], nm)())
    M('has_internal_mods_at_index', lambda w: w['a'].has_internal_mods_at_index(0))
    M('get_internal_mods_by_index', lambda w: w['a'].get_internal_mods_by_index(2), accessor=True)
    M('get_internal_mods_by_index[0]', lambda w: w['a'].get_internal_mods_by_index(0), accessor=True)
    M('slice', lambda w: w['a'].slice(1, 3))
    M('slice[None]', lambda w: w['a'].slice(None, None))
    M('shift', lambda w: w['a'].shift(1))
    M('shuffle[seed]', lambda w: w['a'].shuffle(3))
    M('shuffle', lambda w: w['a'].shuffle(), rnd=True)
    M('reverse[swap]', lambda w: w['a'].reverse(swap_terms=True))
    M('is_subsequence', lambda w: w['sub'].is_subsequence(w['a']), ('a', 'sub'), params={'sub': 'self', 'a': 'other'})
    M('find_indices', lambda w: w['sub'].find_indices(w['a']), ('a', 'sub'), params={'sub': 'self', 'a': 'other'})
    for nm in ('permutations', 'combinations', 'combinations_with_replacement'):
        M(nm, lambda w, nm=nm: getattr(w['a'], nm)(2))
    M('product', lambda w: w['a'].product(2))
    # ---- annotation methods: declared editors
    for nm in ('strip', 'reverse', 'sort_residues', 'condense_static_mods'):
        M(nm + '[inplace]', lambda w, nm=nm: getattr(w['a'], nm)(inplace=True))
    M('slice[inplace]', lambda w: w['a'].slice(1, 3, inplace=True))
    M('shift[inplace]', lambda w: w['a'].shift(1, inplace=True))
    M('shuffle[seed,inplace]', lambda w: w['a'].shuffle(3, inplace=True))
    M('clear_empty_mods', lambda w: w['a'].clear_empty_mods())
    for nm in ('pop_charge', 'pop_charge_adducts', 'pop_cterm_mods', 'pop_internal_mods', 'pop_intervals', 'pop_isotope_mods',
               'pop_labile_mods', 'pop_mods', 'pop_nterm_mods', 'pop_static_mods', 'pop_unknown_mods'):
        M(nm, lambda w, nm=nm: getattr(w['a'], nm)())
    M('pop_internal_mod', lambda w: w['a'].pop_internal_mod(2))
    M('add_charge', lambda w: w['a'].add_charge(3))
    M('add_charge_adducts', lambda w: w['a'].add_charge_adducts(w['term_in'], True), ('a', 'term_in'),
      params={'a': 'self', 'term_in': 'charge_adducts'})
    for nm, key in (('add_cterm_mods', 'modlist'), ('add_nterm_mods', 'modlist'), ('add_unknown_mods', 'modlist'),
                    ('add_labile_mods', 'modlist_m'), ('add_isotope_mods', 'iso_mods'), ('add_static_mods', 'static_mods_l')):
        M(nm, lambda w, nm=nm, key=key: getattr(w['a'], nm)(w[key]), ('a', key), params={'a': 'self', key: 'mods'})
        M(nm + '[append]', lambda w, nm=nm, key=key: getattr(w['a'], nm)(w[key], True), ('a', key),
          params={'a': 'self', key: 'mods'})
    M('add_internal_mod', lambda w: w['a'].add_internal_mod(1, w['modlist'], True), ('a', 'modlist'),
      params={'a': 'self', 'modlist': 'mods'})
    M('add_internal_mods', lambda w: w['a'].add_internal_mods(w['moddict']), ('a', 'moddict'),
      params={'a': 'self', 'moddict': 'mods'})
    M('add_internal_mods[append]', lambda w: w['a'].add_internal_mods(w['moddict'], True), ('a', 'moddict'),
      params={'a': 'self', 'moddict': 'mods'})
    M('add_intervals', lambda w: w['a'].add_intervals(w['intervals_in']), ('a', 'intervals_in'),
      params={'a': 'self', 'intervals_in': 'intervals'})
    M('add_intervals[append]', lambda w: w['a'].add_intervals(w['intervals_in'], True), ('a', 'intervals_in'),
      params={'a': 'self', 'intervals_in': 'intervals'})
    M('add_mod_dict', lambda w: w['a'].add_mod_dict(w['mods'], True), ('a', 'mods'), params={'a': 'self', 'mods': 'mod_dict'})
    # ---- setters
    def setter(prop, key):
        def f(w):
            setattr(w['a'], prop, w[key] if key else 2)
        M(prop + '.setter', f, ('a', key) if key else ('a',), params={'a': 'self', **({key: 'value'} if key else {})})
    for prop, key in (('isotope_mods', 'iso_mods'), ('static_mods', 'static_mods_l'), ('labile_mods', 'modlist'),
                      ('unknown_mods', 'modlist'), ('nterm_mods', 'modlist'), ('cterm_mods', 'modlist'),
                      ('internal_mods', 'moddict'), ('intervals', 'intervals_in'), ('charge_adducts', 'term_in'),
                      ('charge', None)):
        setter(prop, key)
    M('sequence.setter', lambda w: setattr(w['a'], 'sequence', 'PEPK'))
    names = [s.name for s in S]
    assert len(names) == len(set(names)), [n for n in names if names.count(n) > 1]
    return S


def run_call(spec, w):
    """returns (canonical result text, raw result)"""
    try:
        r = consume(spec.fn(w))
        return deep_dump(r), r
    except Exception as e:  # noqa
        return 'EXC:' + type(e).__name__ + ':' + str(e)[:120], None


# ------------------------------------------------------------------------------------------------ checking engine

class RecWorld(dict):
    """world that records which keys a spec reads"""
    def __init__(self, d):
        super().__init__(d)
        self.read = set()

    def __getitem__(self, k):
        self.read.add(k)
        return dict.__getitem__(self, k)


ALIAS_GROUPS = [{'frags', 'fmatches'}]


def close_keys(keys):
    keys = set(keys)
    for g in ALIAS_GROUPS:
        if keys & g:
            keys |= g
    return keys


def partial_copy(w, keys):
    """deep copy of the named world entries (one memo: aliasing inside the group is preserved)"""
    return copy.deepcopy({k: w[k] for k in keys})


class State:
    """everything the workers need; built in the parent before forking"""

    def __init__(self, seed, k_random=4, extra_shapes=()):
        rng = _random.Random(seed * 7919 + 8)
        self.specs = make_specs()
        self.by_name = {s.name: s for s in self.specs}
        self.bases = shapes(rng, k_random) + list(extra_shapes)
        self.wires = [annot.dump(b, sort_internal=False) for b in self.bases]
        self.worlds = [build_world(b) for b in self.bases]
        self.d0 = [dump_world(w) for w in self.worlds]
        self.uses = []       # per shape: spec name -> closed key set actually read
        self.fresh = []      # per shape: spec name -> canonical result on a fresh world
        self.writes = []     # per shape: spec name -> world keys observed changed by the call on a fresh world
        self.first_call_failures = []   # module-level tables of the package that changed at the very first calls (caches)
        self.spec_broken = []           # specs that no longer fit the API (signature changed, name vanished)
        for si, w0 in enumerate(self.worlds):
            u, f = {}, {}
            for s in self.specs:
                rw = RecWorld(copy.deepcopy(w0))
                st = _random.getstate()
                g0 = module_tables_stamp_cheap()
                r, _ = run_call(s, rw)
                g1 = module_tables_stamp_cheap()
                if g0 != g1:
                    ch = sorted(set(f'{a}.{b}' for a, b, _, _ in set(g0) ^ set(g1)))
                    self.first_call_failures.append({
                        'kind': 'global-state-disturbed', 'shape': self.wires[si], 'calls': [s.name], 'changed': ch,
                        'detail': f'{s.api}: module-level table(s) of the package rebound or resized by the call: {ch}'})
                _random.setstate(st)
                u[s.name] = close_keys(rw.read)
                f[s.name] = r
                if si == 0 and r.startswith(HARNESS_LEVEL_EXC):
                    self.spec_broken.append({
                        'kind': 'spec-does-not-fit-api', 'shape': self.wires[si], 'calls': [s.name], 'changed': [],
                        'detail': f'{s.api}: the call spec raises {r[:200]} - the public signature / name changed (no current spec '
                                  f'raises one of these on the unchanged tree); the member is not exercised until the spec is updated'})
            self.uses.append(u)
            self.fresh.append(f)
            self.writes.append({})


HARNESS_LEVEL_EXC = ('EXC:TypeError', 'EXC:AttributeError', 'EXC:NameError', 'EXC:ImportError', 'EXC:UnboundLocalError')

STATE = None


def fail(kind, si, calls, detail, changed=()):
    return {'kind': kind, 'shape': STATE.wires[si] if isinstance(si, int) else si, 'calls': list(calls),
            'changed': sorted(changed), 'detail': detail}


def single_check(si, spec, w0=None, wire=None):
    """all single-call clauses for one spec on one shape; returns (failures, written_keys)"""
    st = STATE
    w0 = st.worlds[si] if w0 is None else w0
    keys = st.uses[si][spec.name] if wire is None else set(w0.keys())
    fails = []
    w = partial_copy(w0, keys)
    d0 = {k: deep_dump(v) for k, v in w.items()}
    rs0 = _random.getstate()
    db0 = db_stamp_cheap()
    r, raw = run_call(spec, w)
    rs1 = _random.getstate()
    db1 = db_stamp_cheap()
    d1 = {k: deep_dump(v) for k, v in w.items()}
    changed = diff_worlds(d0, d1)
    tag = si if wire is None else wire
    if spec.editor:
        other = [k for k in changed if k != spec.target]
        if other:
            fails.append(fail('editor-writes-other-arg', tag, [spec.name],
                              f'{spec.api}: editor changed arguments other than its target: ' +
                              '; '.join(f'{k}: {d0[k][:120]} -> {d1[k][:120]}' for k in other), other))
    elif changed:
        fails.append(fail('arg-write', tag, [spec.name],
                          f'{spec.api}: query changed its arguments: ' +
                          '; '.join(f'{k}: {d0[k][:160]} -> {d1[k][:160]}' for k in changed), changed))
    if rs0 != rs1 and not spec.random:
        fails.append(fail('rng-disturbed', tag, [spec.name], f'{spec.api}: random.getstate() differs after the call'))
    if db0 != db1:
        fails.append(fail('db-disturbed', tag, [spec.name], f'{spec.api}: EntryDb maps rebound or resized by the call'))
    # results share no mutable state with the arguments
    shared = []
    if True:
        recs = world_record_ids(w)
        try:
            mutate(raw, recs)
        except Exception as e:  # noqa
            pass
        d2 = {k: deep_dump(v) for k, v in w.items()}
        sh = diff_worlds(d1, d2)
        shared = sh
        if sh and not spec.accessor:
            fails.append(fail('shared-state', tag, [spec.name],
                              f'{spec.api}: editing the returned value changed the caller\'s objects: ' +
                              '; '.join(f'{k}: {d1[k][:120]} -> {d2[k][:120]}' for k in sh), sh))
    # the same call again (the caller has edited the first result by now), then independence from the caller's generator
    if not spec.random:
        r2, _ = run_call(spec, partial_copy(w0, keys))
        if r2 != r:
            fails.append(fail('history-dependent', tag, [spec.name, spec.name],
                              f'{spec.api}: called, result edited by the caller, called again on equal fresh arguments: '
                              f'{r2[:200]}  but the first call returned: {r[:200]}'))
        else:
            _random.seed(987654321)
            r3, _ = run_call(spec, partial_copy(w0, keys))
            _random.seed(123)
            r4, _ = run_call(spec, partial_copy(w0, keys))
            _random.setstate(rs1)
            if r3 != r or r4 != r:
                fails.append(fail('rng-dependent', tag, [spec.name],
                                  f'{spec.api}: result depends on the state of the global random generator: '
                                  f'{r[:150]} / {r3[:150]} / {r4[:150]}'))
    return fails, changed, shared


def _guarded(task, arg):
    """a worker task never raises: an unexpected exception becomes one reported failure"""
    try:
        return task(arg)
    except Exception as e:  # noqa
        import traceback
        return {'evals': 0, 'nfail': 1, 'shares': {}, 'observed': {}, 'writes': {}, 'failures': [{
            'kind': 'harness-exception', 'shape': '', 'calls': [task.__name__ + repr(arg)[:40]], 'changed': [],
            'detail': f'{task.__name__}: unexpected {type(e).__name__}: {e}; ' + traceback.format_exc()[-600:]}]}


def g_single(arg):
    return _guarded(task_single, arg)


def g_pairs(arg):
    return _guarded(task_pairs, arg)


def g_triples(arg):
    return _guarded(task_triples, arg)


def g_fragmenter(arg):
    return _guarded(task_fragmenter, arg)


def task_single(si):
    st = STATE
    fails, observed, n = [], {}, 0
    shares = {}
    full0 = db_stamp_full()
    for s in st.specs:
        try:
            f, changed, shared = single_check(si, s)
        except Exception as e:  # noqa - an exception of the checking machinery for one function is a failure of that function
            f, changed, shared = [fail('check-exception', si, [s.name], f'{s.api}: checking this call raised {type(e).__name__}: {e}')], [], []
        n += 1
        fails += f
        st.writes[si][s.name] = changed
        if shared:
            shares[s.name] = shared
        for k in changed:
            if s.editor and k == s.target:
                continue
            observed.setdefault(s.api, set()).add(s.params.get(k, '?' + k))
    if db_stamp_full() != full0:
        # find the call that did it
        culprit = None
        for s in st.specs:
            before = db_stamp_full()
            run_call(s, partial_copy(st.worlds[si], st.uses[si][s.name]))
            if db_stamp_full() != before:
                culprit = s
                break
        fails.append(fail('global-state-disturbed', si, [culprit.name if culprit else '<all single calls>'],
                          (culprit.api if culprit else '?') + ': content of the EntryDb maps or of a module-level table of the package '
                          'changed during the call'))
    return {'evals': n, 'failures': fails, 'shares': shares, 'observed': {k: sorted(v) for k, v in observed.items()},
            'writes': st.writes[si]}


def history_check(si, names, w0=None, wire=None, fresh=None):
    """[A1..Ak, B]: result of B after the Ai on shared objects == result of B on fresh objects"""
    st = STATE
    w0 = st.worlds[si] if w0 is None else w0
    specs = [st.by_name[n] for n in names]
    if wire is None:
        keys = set()
        for s in specs:
            keys |= st.uses[si][s.name]
    else:
        keys = set(w0.keys())
    w = partial_copy(w0, keys)
    for s in specs[:-1]:
        _, raw = run_call(s, w)
        if not s.accessor:
            # the caller edits what it got back before the next call (a cache handing out a shared object shows here)
            try:
                mutate(raw, world_record_ids(w))
            except Exception:
                pass
    rs = _random.getstate()
    r, _ = run_call(specs[-1], w)
    _random.setstate(rs)
    if fresh is None:
        fresh = st.fresh[si][names[-1]] if wire is None else run_call(specs[-1], partial_copy(w0, keys))[0]
    if r != fresh:
        return fail('history-dependent', si if wire is None else wire, names,
                    f'{specs[-1].api} after {[s.api for s in specs[:-1]]}: {r[:200]}  but on fresh arguments: {fresh[:200]}')
    return None


def task_pairs(si):
    """exhaustive ordered pairs (A query, B any non-random spec) on one shape"""
    st = STATE
    w0 = st.worlds[si]
    fails, n, nontriv = [], 0, 0
    full0 = db_stamp_full()
    As = [s for s in st.specs if not s.editor]
    Bs = [s for s in st.specs if not s.random]
    for A in As:
        wA = copy.deepcopy(w0)
        rsA = _random.getstate()
        _, rawA = run_call(A, wA)
        if not A.accessor:
            try:
                mutate(rawA, world_record_ids(wA))     # the caller edits the result of A before calling B
            except Exception:
                pass
        if not A.random:
            _random.setstate(rsA)
        for B in Bs:
            keys = st.uses[si][B.name]
            clean = not B.editor and not st.writes[si].get(B.name)
            if clean:
                tgt = wA
                before = {k: deep_dump(wA[k]) for k in keys}
            else:
                tgt = partial_copy(wA, keys)
            db0 = db_stamp_cheap()
            r, _ = run_call(B, tgt)
            n += 1
            if not r.startswith('EXC:'):
                nontriv += 1
            if db_stamp_cheap() != db0:
                fails.append(fail('db-disturbed', si, [A.name, B.name], 'EntryDb maps rebound or resized'))
            if r != st.fresh[si][B.name]:
                if len(fails) < 50:
                    fails.append(fail('history-dependent', si, [A.name, B.name],
                                      f'{B.api} after {A.api}: {r[:200]}  but on fresh arguments: {st.fresh[si][B.name][:200]}'))
                else:
                    fails.append({'kind': 'history-dependent', 'calls': [A.name, B.name], 'shape': st.wires[si], 'changed': [],
                                  'detail': ''})
            if clean:
                after = {k: deep_dump(wA[k]) for k in keys}
                if after != before:
                    # B wrote although it did not on a fresh world: report and rebuild
                    fails.append(fail('arg-write', si, [A.name, B.name],
                                      f'{B.api} changed its arguments when called after {A.api}', diff_worlds(before, after)))
                    wA = copy.deepcopy(w0)
                    run_call(A, wA)
    if db_stamp_full() != full0:
        fails.append(fail('db-disturbed', si, ['<all pairs>'], 'content digest of the EntryDb maps / constants tables changed'))
    return {'evals': n, 'nontrivial': nontriv, 'failures': fails[:200], 'nfail': len(fails)}


def task_triples(arg):
    seed, count = arg
    st = STATE
    rng = _random.Random(seed)
    As = [s.name for s in st.specs if not s.editor]
    Bs = [s.name for s in st.specs if not s.random]
    fails, n, nontriv = [], 0, 0
    nshapes = len(st.worlds)
    for _ in range(count):
        si = rng.randrange(nshapes)
        names = [rng.choice(As), rng.choice(As), rng.choice(Bs)]
        f = history_check(si, names)
        n += 1
        if not st.fresh[si][names[-1]].startswith('EXC:'):
            nontriv += 1
        if f is not None:
            fails.append(f)
    return {'evals': n, 'nontrivial': nontriv, 'failures': fails[:100], 'nfail': len(fails)}


# ------------------------------------------------------------------------------------------------ Fragmenter object histories

FRAGMENTER_OPS = [
    (('b', 1), {}),
    ((['b'], [1]), {}),
    (('y', 2), {}),
    ((['b', 'y'], 1), {}),
    (('by', 1), {}),
    ((['b', 'y'], [1, 2]), {'isotopes': [0, 1]}),
    (('b', 1), {'water_loss': True}),
    (('b', 1), {'losses': [('K', -1.0)]}),
    (('b', 1), {'losses': ('K', -1.0), 'max_losses': 2}),
    (('b', 1), {'return_type': 'mz'}),
    (('y', 1), {'return_type': 'label'}),
    (('b', 1), {'precision': 2}),
    (('i', 1), {}),
]


def _fragmenter_base(base):
    fa = base.copy()
    fa._intervals = None
    fa._unknown_mods = None
    return fa


def fragmenter_history(base, idxs):
    """one Fragmenter object, the calls FRAGMENTER_OPS[i] for i in idxs in that order, every result edited by the caller before
    the next call; returns None or a description of the failure (last result != result on a fresh Fragmenter; source changed)"""
    import peptacular as pt
    fa = _fragmenter_base(base)
    src = fa.copy()
    d_src = deep_dump(src)

    def call(f, k):
        args, kw = FRAGMENTER_OPS[k]
        try:
            return f.fragment(*copy.deepcopy(args), **copy.deepcopy(kw)), None
        except Exception as e:  # noqa
            return None, 'EXC:' + type(e).__name__
    try:
        fresh_obj = pt.Fragmenter(fa.copy())
    except Exception:
        return None
    r0, e0 = call(fresh_obj, idxs[-1])
    fresh = e0 or deep_dump(r0)
    f = pt.Fragmenter(src)
    for k in idxs[:-1]:
        r, _ = call(f, k)
        try:
            mutate(r, set())
        except Exception:
            pass
    r, e = call(f, idxs[-1])
    got = e or deep_dump(r)
    if got != fresh:
        return f'Fragmenter.fragment{FRAGMENTER_OPS[idxs[-1]]} after {[FRAGMENTER_OPS[k] for k in idxs[:-1]]} on the same Fragmenter: ' \
               f'{got[:200]}  but on a fresh Fragmenter: {fresh[:200]}'
    if deep_dump(src) != d_src:
        return f'Fragmenter histories changed the annotation the Fragmenter was built from: {d_src[:150]} -> {deep_dump(src)[:150]}'
    return None


def task_fragmenter(si):
    st = STATE
    base = st.bases[si]
    n = len(FRAGMENTER_OPS)
    fails, evals = [], 0
    seqs = [(i, j) for i in range(n) for j in range(n)]
    rng = _random.Random(si * 31 + 7)
    seqs += [(rng.randrange(n), rng.randrange(n), rng.randrange(n)) for _ in range(60)]
    for idxs in seqs:
        evals += 1
        r = fragmenter_history(base, idxs)
        if r:
            fails.append({'kind': 'history-dependent', 'shape': st.wires[si], 'calls': [f'Fragmenter#{k}' for k in idxs],
                          'changed': [], 'detail': r})
    return {'evals': evals, 'failures': fails[:20], 'nfail': len(fails)}


def eval_case(case):
    """re-run one stored case (corpus / replay): shape wire + call names -> list of failures (empty = property holds)"""
    global STATE
    st = STATE
    base = annot.undump(case['shape'])
    names = case['calls']
    if names and all(n.startswith('Fragmenter#') for n in names):
        r = fragmenter_history(base, [int(n.split('#')[1]) for n in names])
        return [{'kind': 'history-dependent', 'shape': case['shape'], 'calls': names, 'changed': [], 'detail': r}] if r else []
    w0 = build_world(base)
    out = []
    for n in names:
        if n not in st.by_name:
            return [{'kind': 'stale-case', 'detail': f'spec {n} no longer exists', 'calls': names, 'shape': case['shape'], 'changed': []}]
    g0 = module_tables_digest()
    f, _, _ = single_check(None, st.by_name[names[-1]], w0=w0, wire=case['shape'])
    out += f
    if module_tables_digest() != g0:
        out.append(fail('global-state-disturbed', case['shape'], names, st.by_name[names[-1]].api +
                        ': content of the EntryDb maps or of a module-level table of the package changed during the call'))
    if len(names) > 1 and not st.by_name[names[-1]].random:
        h = history_check(None, names, w0=w0, wire=case['shape'])
        if h:
            out.append(h)
    return out
