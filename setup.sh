#!/bin/bash
# offline build of the Lean project: every property's theorem modules and its compiled driver.
# A property whose modules do not build does not stop the others (its own check will report it).
cd "$(dirname "$0")/lean" || exit 2
rc=0
for f in PeptVerif/Props/C*.lean; do
  m="PeptVerif.Props.$(basename "$f" .lean)"
  lake build "$m" 2>&1 | grep -E "error|Build completed" | tail -3 || true
done
for i in $(seq -w 1 20); do
  lake build "drv_c$i" 2>&1 | grep -E "error|Build completed" | tail -2 || true
done
ls .lake/build/bin/ | grep -c '^drv_c[0-9][0-9]$'
exit 0
