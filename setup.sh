#!/bin/bash
# offline build of the Lean project (library, property modules, drivers)
set -e
cd "$(dirname "$0")/lean"
lake build 2>&1 | tail -5
